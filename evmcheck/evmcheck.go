// Package evmcheck holds the oracles shared by the C16 (sandbox) and C07 (journal, unit evm) checks: a generated EVM
// scenario is executed through the recording proxy, a second time without instrumentation, and a third manager
// replays only the operations that must have survived.
package evmcheck

import (
	"fmt"
	"sort"
	"strings"

	"verif/sim"

	"github.com/LemoFoundationLtd/lemochain-core/chain/account"
	"github.com/LemoFoundationLtd/lemochain-core/common"
)

func universe(base *sim.EvmBase, p *sim.Proxy, extra ...common.Address) []common.Address {
	set := map[common.Address]bool{}
	for _, a := range base.Senders {
		set[a] = true
	}
	for _, a := range base.Contracts {
		set[a] = true
	}
	set[base.EOA], set[base.Absent], set[base.Miner] = true, true, true
	for _, a := range sim.Precompiles {
		set[a] = true
	}
	if p != nil {
		for a := range p.Touched {
			set[a] = true
		}
	}
	for _, a := range extra {
		set[a] = true
	}
	res := make([]common.Address, 0, len(set))
	for a := range set {
		res = append(res, a)
	}
	sort.Slice(res, func(i, j int) bool { return string(res[i][:]) < string(res[j][:]) })
	return res
}

type Outcome struct {
	Results []sim.EvmResult
	Logs    []string
	Proxy   *sim.Proxy
	AM      *account.Manager
}

// execute runs the whole case on a fresh manager. withProxy: through the recording proxy (with all per-entry checks).
type Fataler interface {
	Fatalf(format string, args ...any)
}

func Execute(t Fataler, base *sim.EvmBase, c *sim.EvmCase, withProxy bool) *Outcome {
	am := account.NewManager(base.Hash, base.DB)
	o := &Outcome{AM: am}
	if !withProxy {
		for i, code := range c.Programs {
			am.GetAccount(base.Contracts[i]).SetCode(code)
		}
		for _, call := range c.Calls {
			o.Results = append(o.Results, sim.RunEVM(am, call, base.Miner, false))
		}
		o.Logs = sim.RenderLogs(am.GetChangeLogs(), true)
		return o
	}
	p := sim.NewProxy(am)
	o.Proxy = p
	for i, code := range c.Programs {
		p.GetAccount(base.Contracts[i]).SetCode(code)
	}
	for i, call := range c.Calls {
		before := len(p.Survived)
		res := sim.RunEVM(p, call, base.Miner, true)
		o.Results = append(o.Results, res)
		desc := fmt.Sprintf("entry %d (%s to %s gas %d value %v)", i, call.Kind, call.To.Hex()[36:], call.Gas, call.Value)
		if res.Panic != nil {
			t.Fatalf("%s: the EVM panicked: %v\ncase: %v", desc, res.Panic, c.Describe())
		}
		if res.GasLeft > call.Gas {
			t.Fatalf("%s: %d gas left, only %d supplied\ncase: %v", desc, res.GasLeft, call.Gas, c.Describe())
		}
		if res.MaxDepth > 1025 {
			t.Fatalf("%s: call depth %d\ncase: %v", desc, res.MaxDepth, c.Describe())
		}
		after := p.Survived[before:]
		if call.Kind == "static" {
			// a read-only call changes nothing: only writes of the value that is there already (zero-value transfers of
			// nested calls) and the platform's own failure events of failing nested calls may be journaled
			for _, op := range after {
				if !op.Noop && !isEvent(op) {
					t.Fatalf("%s: a read-only call changed state: %v\ncase: %v", desc, opDescs(after), c.Describe())
				}
			}
		}
		if res.Err != "" && call.Kind != "static" {
			// all-or-nothing: nothing but the platform's failure event may survive
			events := 0
			for _, op := range after {
				if isEvent(op) {
					events++
				} else if !op.Noop {
					t.Fatalf("%s failed (%s) but left state changes behind: %v\ncase: %v", desc, res.Err, opDescs(after), c.Describe())
				}
			}
			if events > 1 {
				t.Fatalf("%s failed (%s) and left %d events behind: %v\ncase: %v", desc, res.Err, events, opDescs(after), c.Describe())
			}
		}
	}
	o.Logs = sim.RenderLogs(am.GetChangeLogs(), true)
	return o
}

func isEvent(op *sim.RecOp) bool { return len(op.Desc) >= 8 && op.Desc[:8] == "AddEvent" }

func opDescs(ops []*sim.RecOp) []string {
	var r []string
	for _, o := range ops {
		r = append(r, o.Desc)
	}
	return r
}

// checkCase runs every oracle on one generated case. Returns the proxy for statistics.
// CheckCase runs every oracle on one generated case. Returns the proxy for statistics.
func CheckCase(t Fataler, base *sim.EvmBase, c *sim.EvmCase) *sim.Proxy {
	first := Execute(t, base, c, true)
	p := first.Proxy
	// determinism: a second run from the same state, without instrumentation
	second := Execute(t, base, c, false)
	for i := range first.Results {
		a, b := first.Results[i], second.Results[i]
		if a.String() != b.String() {
			t.Fatalf("entry %d is not deterministic:\n 1st: %s\n 2nd: %s\ncase: %v", i, a, b, c.Describe())
		}
	}
	if !equalLines(first.Logs, second.Logs) {
		t.Fatalf("two runs from the same state journal different changes:\n 1st: %v\n 2nd: %v\ncase: %v", first.Logs, second.Logs, c.Describe())
	}
	// journal faithfulness (C07 unit evm): a manager that executes only the surviving operations must agree
	ref := account.NewManager(base.Hash, base.DB)
	for _, op := range p.Survived {
		op.Do(ref)
	}
	var created []common.Address
	for _, r := range first.Results {
		if r.Created != (common.Address{}) {
			created = append(created, r.Created)
		}
	}
	addrs := universe(base, p, created...)
	if a, b := first.Logs, sim.RenderLogs(ref.GetChangeLogs(), true); !equalLines(a, b) {
		t.Fatalf("journal differs from a replay of the surviving operations:\n real: %v\n  ref: %v\nsurvived: %v\ncase: %v", a, b, opDescs(p.Survived), c.Describe())
	}
	opt := sim.DumpOptions{}
	if diff := sim.DumpState(ref, addrs, &p.Keys, opt).Diff(sim.DumpState(first.AM, addrs, &p.Keys, opt)); diff != "" {
		if knownRecreateUndo(diff, p) {
			// listed finding undo-code-after-recreate: the journal is right (compared above), the real state lost the code
			sim.KnownHit(KnownUnit, "undo-code-after-recreate", strings.Join(c.Describe(), " "))
			return p
		}
		t.Fatalf("state differs from a replay of the surviving operations (- reference, + real):\n%s\ncase: %v", diff, c.Describe())
	}
	if diff := sim.DumpState(second.AM, addrs, &p.Keys, opt).Diff(sim.DumpState(first.AM, addrs, &p.Keys, opt)); diff != "" {
		t.Fatalf("two runs from the same state end in different states (- 2nd, + 1st):\n%s\ncase: %v", diff, c.Describe())
	}
	first.AM.MergeChangeLogs()
	ref.MergeChangeLogs()
	errA, errB := first.AM.Finalise(), ref.Finalise()
	if (errA == nil) != (errB == nil) {
		t.Fatalf("Finalise: real %v, reference %v\ncase: %v", errA, errB, c.Describe())
	}
	if errA == nil {
		if a, b := sim.RenderLogs(first.AM.GetChangeLogs(), true), sim.RenderLogs(ref.GetChangeLogs(), true); !equalLines(a, b) {
			t.Fatalf("finalised logs differ from the replay:\n real: %v\n  ref: %v\ncase: %v", a, b, c.Describe())
		}
		if first.AM.GetVersionRoot() != ref.GetVersionRoot() {
			t.Fatalf("version root differs from the replay\ncase: %v", c.Describe())
		}
		fo := sim.DumpOptions{Roots: true, Versions: true}
		if diff := sim.DumpState(ref, addrs, &p.Keys, fo).Diff(sim.DumpState(first.AM, addrs, &p.Keys, fo)); diff != "" {
			t.Fatalf("finalised state differs from the replay (- reference, + real):\n%s\ncase: %v", diff, c.Describe())
		}
	}
	return p
}

func equalLines(a, b []string) bool {
	if len(a) != len(b) {
		return false
	}
	for i := range a {
		if a[i] != b[i] {
			return false
		}
	}
	return true
}

// KnownUnit is the unit name under which known-finding hits of this package are reported (set by the test package).
var KnownUnit = "programs"

// knownRecreateUndo is the matcher of the known finding undo-code-after-recreate. A contract that CREATEs twice in one
// transaction gets the same address both times (address = f(creator, transaction hash); the collision test only knows accounts
// of earlier blocks), so the EVM sets code on an account that holds code already. The code log keeps no previous value:
// undoing the second creation (its frame fails later) clears the code instead of restoring the first. The matcher explains a
// mismatch only if every differing line is a code / code hash line of an address on which the recorder saw code being set
// over existing code, and the real state is the one that has no code.
func knownRecreateUndo(diff string, p *sim.Proxy) bool {
	over := map[string]bool{}
	for a := range p.CodeOverwritten {
		over[a.Hex()] = true
	}
	if len(over) == 0 {
		return false
	}
	for _, line := range strings.Split(diff, "\n") {
		parts := strings.SplitN(line, "  ", 2)
		if len(parts) != 2 || !over[parts[0]] {
			return false
		}
		f := parts[1]
		switch {
		case strings.HasPrefix(f, "- codehash=") || strings.HasPrefix(f, "- code="):
		case f == "+ codehash=none" || strings.HasPrefix(f, "+ code= "):
		default:
			return false
		}
	}
	return true
}
