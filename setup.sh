#!/bin/bash
# Offline setup: warm the Go build cache for the harness and the instrumented repository. Nothing is fetched.
cd "$(dirname "$0")" || exit 1
export GOFLAGS=-mod=mod GOPROXY=off GOSUMDB=off GOTOOLCHAIN=local
go build -tags verif ./sim/ || exit 1
for d in checks/*/; do
  go test -tags verif -vet=off -c -o /dev/null "./$d" || exit 1
done
exit 0
