#!/bin/bash
# usage: tools/isorun.sh <ID> <patch.diff> [check args]  -- like seedrun.sh, but on a private copy of /repo and /verif under /tmp/iso2
# (so that /repo itself stays untouched while other runs read it)
ISO=/tmp/iso2
mkdir -p $ISO
if [ ! -d $ISO/repo/.git ]; then git clone -q /repo $ISO/repo; fi
git -C $ISO/repo fetch -q /repo main 2>/dev/null; git -C $ISO/repo checkout -q -- . ; git -C $ISO/repo reset -q --hard FETCH_HEAD
rsync -a --delete --exclude replays --exclude .git /verif/ $ISO/verif/
sed -i "s|=> /repo|=> $ISO/repo|" $ISO/verif/go.mod
REPO=$ISO/repo VERIF=$ISO/verif $ISO/verif/tools/seedrun.sh "$@"
