#!/usr/bin/env python3
"""Regenerates /verif/MANIFEST.json from checks_table.py (single source of truth for the registered checks)."""
import json, os, subprocess, sys
ROOT = os.path.dirname(os.path.dirname(os.path.abspath(__file__)))
sys.path.insert(0, ROOT)
from checks_table import CHECKS, NOT_APPLICABLE

def repo_commits():
    out = subprocess.run(["git", "-C", "/repo", "log", "--format=%H %s"], stdout=subprocess.PIPE, text=True).stdout
    hooks = [l.split()[0] for l in out.splitlines() if l.split(" ", 1)[1].startswith("verif hook")]
    return list(reversed(hooks))

props = [json.loads(l)["id"] for l in open(os.path.join(ROOT, "properties.jsonl"))]
checks = []
for pid in props:
    if pid not in CHECKS:
        continue
    c = CHECKS[pid]
    checks.append({
        "property_id": pid,
        "quick_cmd": "./check %s --tier quick" % pid,
        "thorough_cmd": "./check %s --tier thorough" % pid,
        "evidence_file": "/verif/evidence/%s.json" % pid,
        "replay_cmd_template": "./check %s --replay {path}" % pid,
        "engine": "rapid+go-test",
        "level_claimed": {"category": c.get("level", "exploration"), "text": c["level_text"], "design_ref": "DESIGN.md section 4, " + pid},
        "level_note": c["level_note"],
        "technique": c["technique"],
    })
na = [{"property_id": p, "reason": NOT_APPLICABLE.get(p, "check not built yet (work in progress in this session; the design in DESIGN.md section 4 applies)")}
      for p in props if p not in CHECKS]
m = {
    "version": 1,
    "setup_cmd": "./setup.sh",
    "hooks": {
        "guard": "verif",
        "enable": "go test -tags verif (build tag; hook files are //go:build verif)",
        "baseline_off_cmd": "cd /repo && go test -mod=mod -json -vet=off -count=1 -timeout 25m ./...",
        "source_commits": repo_commits(),
        "add_only": True,
    },
    "engines": [{"name": "rapid+go-test", "path": "/verif/check", "serves_properties": [c["property_id"] for c in checks],
                 "kind_free_text": "python3 driver that builds one Go test package per property from /repo's working tree (tag verif) and runs "
                                   "pgregory.net/rapid v1.3.0 generators / state machines, exhaustive small-scope enumerations and (thorough tier) native go fuzzing; "
                                   "shared harness library in /verif/sim"}],
    "checks": checks,
    "not_applicable": na,
    "notes": "Property-based testing and fuzzing only. Known findings: /verif/known_findings.json. Seeded breaking changes used for sensitivity: /verif/seeded/.",
}
json.dump(m, open(os.path.join(ROOT, "MANIFEST.json"), "w"), indent=1)
print("claimed:", [c["property_id"] for c in checks], "not claimed:", [x["property_id"] for x in na])
