#!/bin/bash
REPO=${REPO:-/repo}; VERIF=${VERIF:-/verif}
# usage: tools/seedtable.sh > table   -- runs every seeded change under /verif/seeded against its property's quick check
cd $VERIF
for d in seeded/*/; do
  name=$(basename $d); id=${name%-*}
  res=$(tools/seedrun.sh $id $VERIF/$d/patch.diff 2>&1 | tail -2 | tr '\n' ' ')
  case "$res" in
    *"does not apply"*) v="patch no longer applies (the code it changes was repaired)";;
    *"exit=1"*) v="caught";;
    *"exit=0"*) v="missed (quick tier)";;
    *) v="? $res";;
  esac
  echo "$name | $v"
done
