#!/bin/bash
REPO=${REPO:-/repo}; VERIF=${VERIF:-/verif}
# usage: tools/reverttable.sh > table  -- reverts every repaired defect in turn (reverse patch on /repo's working tree) and runs the check of its property
cd $VERIF
python3 - <<'PY' > /tmp/fixlist.txt
import json,re
k=json.load(open(__import__('os').environ.get('VERIF','/verif')+'/known_findings.json'))
for e in k['fixed']:
    m=re.match(r"fixed: property=(C\d+) (\w+) ",e)
    print(m.group(1),m.group(2))
PY
mkdir -p /tmp/fixrev
while read -r ID SHA; do
  if [ "$SHA" = "e52fe30" ]; then git -C $REPO diff e52fe30~1 70177bd -R > /tmp/fixrev/$SHA.diff; else git -C $REPO diff $SHA~1 $SHA -R > /tmp/fixrev/$SHA.diff; fi
  res=$(tools/seedrun.sh $ID /tmp/fixrev/$SHA.diff 2>&1 | tail -2 | tr '\n' ' ')
  case "$res" in
    *"does not apply"*) v="reverse patch does not apply in isolation (a later repair builds on it)";;
    *"exit=1"*) v="caught";;
    *"exit=0"*) v="missed (quick tier)";;
    *) v="? $res";;
  esac
  echo "$ID $SHA | $v"
done < /tmp/fixlist.txt
