#!/bin/bash
# usage: tools/runall.sh [tier]  -- run every registered check one after the other, print the verdict lines
cd /verif
TIER=${1:-quick}
for id in ${IDS:-C01 C02 C03 C04 C05 C06 C07 C08 C09 C10 C11 C12 C13 C14 C15 C16 C17 C18 C19 C20}; do
  ./check $id --tier $TIER 2>&1 | grep -E "^(OK|VIOLATION|KNOWN-FINDING|INCONCLUSIVE|BUILD)" | sed "s/^/$id: /"
done
