#!/usr/bin/env python3
"""Validate MANIFEST.json and evidence files against the schemas (uses the tooling venv's jsonschema)."""
import json, glob, sys
import jsonschema
ok = True
try:
    jsonschema.validate(json.load(open('/verif/MANIFEST.json')), json.load(open('/root/.vp/MANIFEST.schema.json')))
    print('manifest ok')
except Exception as e:
    ok = False; print('MANIFEST INVALID', str(e)[:500])
sch = json.load(open('/root/.vp/EVIDENCE.schema.json'))
for f in sorted(glob.glob('/verif/evidence/*.json')):
    try:
        jsonschema.validate(json.load(open(f)), sch)
        print('ok', f)
    except Exception as e:
        ok = False; print('INVALID', f, str(e)[:300])
sys.exit(0 if ok else 1)
