#!/bin/bash
REPO=${REPO:-/repo}; VERIF=${VERIF:-/verif}
# usage: tools/seedrun.sh <ID> <patch.diff> [check args]  -- apply a seeded change to /repo, run the check, undo the change
set -u
ID=$1; PATCH=$2; shift 2
cd $REPO || exit 9
if ! git diff --quiet; then echo "repo dirty, abort"; exit 9; fi
git apply "$PATCH" || { echo "patch does not apply"; exit 8; }
cd $VERIF && ./check "$ID" "$@" >/tmp/seedrun_last.$$.out 2>/tmp/seedrun_last.$$.err
rc=$?
grep -E "^(VIOLATION|OK|KNOWN|INCONCLUSIVE|BUILD)" /tmp/seedrun_last.$$.out; rm -f /tmp/seedrun_last.$$.out /tmp/seedrun_last.$$.err
git -C $REPO checkout -- .
echo "exit=$rc"
