#!/bin/bash
# usage: tools/runtest.sh <pkgdir> <TestRegex> [extra test flags]   -- build and run one harness test in a scratch dir
. /verif/env.sh
PKG=$1; T=$2; shift 2
D=$(mktemp -d /dev/shm/rt.XXXXXX)
(cd /verif && go test -tags verif -vet=off -c -o $D/t.test ./$PKG) || { rm -rf $D; exit 1; }
(cd $D && VERIF_TMP=$D ./t.test -test.run "$T" "$@" 2>&1 | grep -v "^WARNING")
rc=$?
rm -rf $D
exit $rc
