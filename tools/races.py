#!/usr/bin/env python3
"""Summarise Go race detector reports: one line per distinct pair of innermost product frames."""
import sys, re, collections
txt = open(sys.argv[1]).read()
blocks = txt.split("WARNING: DATA RACE")[1:]
pairs = collections.Counter()
for b in blocks:
    b = b.split("==================")[0]
    # sections: first access, previous access
    secs = re.split(r"\n(?=(?:Previous )?(?:[Rr]ead|[Ww]rite|[Aa]tomic read|[Aa]tomic write) at |Goroutine \d+ \()", b)
    tops = []
    for s in secs:
        m = re.match(r"\s*((?:Previous )?(?:[Rr]ead|[Ww]rite|[Aa]tomic read|[Aa]tomic write)) at ", s)
        if not m:
            continue
        kind = m.group(1).replace("Previous ", "").lower()
        frames = re.findall(r"\n  (\S+)\(\)\n      (\S+):(\d+)", s)
        prod = [f for f in frames if "lemochain-core" in f[0] or "/repo/" in f[1]]
        top = prod[0] if prod else (frames[0] if frames else ("?", "?", "0"))
        tops.append("%s %s (%s:%s)" % (kind, top[0].split("/")[-1], top[1].replace("/repo/", ""), top[2]))
    pairs[" <-> ".join(sorted(tops))] += 1
for k, v in pairs.most_common():
    print(v, k)
