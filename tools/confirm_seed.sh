#!/bin/bash
# usage: tools/confirm_seed.sh <ID> <variant>
# Confirms a seeded change produced by a sub-agent in a scratch worktree (never in /repo): the demo fails with the
# change and passes without it, and the repository's own suite still passes with the change. Then files it under /verif/seeded/.
set -u
ID=$1; V=$2
SRC=/tmp/seeded-out/$ID/$V
WT=/tmp/cf-$ID-$V
export GOFLAGS=-mod=mod GOPROXY=off GOSUMDB=off GOTOOLCHAIN=local
[ -f $SRC/patch.diff ] || { echo "no patch"; exit 1; }
git -C /repo worktree add -q --detach $WT HEAD || exit 1
cd $WT
DEMO_DIR=$(python3 -c "import json;print(json.load(open('$SRC/meta.json'))['demo_dir'])")
DEMO_CMD=$(python3 -c "import json;print(json.load(open('$SRC/meta.json'))['demo_cmd'])")
res() { echo "$1" >> $SRC/confirm.txt; echo "$1"; }
: > $SRC/confirm.txt
git apply $SRC/patch.diff || { res "APPLY-FAILED"; cd /; git -C /repo worktree remove --force $WT; exit 1; }
go build ./... || { res "BUILD-FAILED"; cd /; git -C /repo worktree remove --force $WT; exit 1; }
# suite with the change, without the demo
/tmp/seeded-out/run_suite.sh $WT > $SRC/suite.txt 2>&1; s1=$?
if [ $s1 -ne 0 ]; then /tmp/seeded-out/run_suite.sh $WT > $SRC/suite.txt 2>&1; s1=$?; fi
res "suite_with_change_rc=$s1 $(head -1 $SRC/suite.txt)"
cp $SRC/demo_test.go $DEMO_DIR/demo_test.go
timeout 600 bash -c "$DEMO_CMD" > $SRC/demo_with.txt 2>&1; d1=$?
res "demo_with_change_rc=$d1"
git checkout -q -- . ; git apply -R $SRC/patch.diff 2>/dev/null; git checkout -q -- .
cp $SRC/demo_test.go $DEMO_DIR/demo_test.go
timeout 600 bash -c "$DEMO_CMD" > $SRC/demo_without.txt 2>&1; d2=$?
res "demo_without_change_rc=$d2"
cd /; git -C /repo worktree remove --force $WT
if [ $s1 -eq 0 ] && [ $d1 -ne 0 ] && [ $d2 -eq 0 ]; then
  res "CONFIRMED"
  mkdir -p /verif/seeded/$ID-$V
  cp $SRC/patch.diff $SRC/demo_test.go $SRC/meta.json $SRC/confirm.txt /verif/seeded/$ID-$V/
  tail -5 $SRC/demo_with.txt > /verif/seeded/$ID-$V/demo_with_change.tail.txt
else
  res "NOT-CONFIRMED"
fi
