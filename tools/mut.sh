#!/bin/bash
# usage: tools/mut.sh <ID> <file-in-repo> <python-regex-old> <new> [extra check args]
# Applies a one-off textual mutation to /repo, runs the check, restores /repo. For sensitivity testing only.
set -u
ID=$1; FILE=$2; OLD=$3; NEW=$4; shift 4
cd /repo || exit 9
if ! git diff --quiet; then echo "repo dirty, abort"; exit 9; fi
python3 - "$FILE" "$OLD" "$NEW" <<'PY'
import sys,re
f,old,new=sys.argv[1:4]
s=open(f).read()
n=len(re.findall(old,s))
if n!=1:
    print("pattern matches %d times"%n); sys.exit(3)
new=new.encode().decode('unicode_escape')
open(f,'w').write(re.sub(old,lambda m:new,s,count=1))
PY
rc=$?
if [ $rc -ne 0 ]; then git checkout -- .; exit $rc; fi
if ! go build ./... 2>/tmp/mut_build.err; then echo "mutant does not compile"; cat /tmp/mut_build.err | head; git checkout -- .; exit 4; fi
cd /verif && ./check "$ID" "$@" 2>/tmp/mut_last.err | grep -E "^(VIOLATION|OK|KNOWN|INCONCLUSIVE|BUILD)" 
rc=${PIPESTATUS[0]}
git -C /repo checkout -- .
echo "exit=$rc"
