export GOFLAGS=-mod=mod GOPROXY=off GOSUMDB=off GOTOOLCHAIN=local
