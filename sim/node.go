package sim

import (
	"fmt"
	"io"
	"os"
	"path/filepath"
	"runtime"
	"strconv"
	"sync"
	"sync/atomic"
	"time"

	"github.com/LemoFoundationLtd/lemochain-core/chain"
	"github.com/LemoFoundationLtd/lemochain-core/chain/account"
	"github.com/LemoFoundationLtd/lemochain-core/chain/consensus"
	"github.com/LemoFoundationLtd/lemochain-core/chain/deputynode"
	"github.com/LemoFoundationLtd/lemochain-core/chain/params"
	"github.com/LemoFoundationLtd/lemochain-core/chain/txpool"
	"github.com/LemoFoundationLtd/lemochain-core/chain/types"
	"github.com/LemoFoundationLtd/lemochain-core/common"
	"github.com/LemoFoundationLtd/lemochain-core/common/flag"
	"github.com/LemoFoundationLtd/lemochain-core/common/log"
	"github.com/LemoFoundationLtd/lemochain-core/common/rlp"
	"github.com/LemoFoundationLtd/lemochain-core/common/subscribe"
	"github.com/LemoFoundationLtd/lemochain-core/store"
)

var (
	quietOnce  sync.Once
	dirCounter int64
	tmpRoot    string
	tmpOnce    sync.Once
)

// Quiet silences the product's logger (errors are logged on expected paths such as a rejected block).
func Quiet() {
	quietOnce.Do(func() {
		if os.Getenv("VERIF_LOG") == "" {
			log.Setup(log.LevelCrit, false, false)
		}
	})
}

// TmpRoot is the scratch root for data directories of this process: $VERIF_TMP or a fresh temp dir.
func TmpRoot() string {
	tmpOnce.Do(func() {
		root := os.Getenv("VERIF_TMP")
		if root == "" {
			root = os.TempDir()
		}
		d, err := os.MkdirTemp(root, "vsim-")
		if err != nil {
			panic(err)
		}
		tmpRoot = d
	})
	return tmpRoot
}

// NewDir returns a fresh, not yet existing data directory path.
func NewDir() string {
	n := atomic.AddInt64(&dirCounter, 1)
	return filepath.Join(TmpRoot(), fmt.Sprintf("d%d-%d", os.Getpid(), n))
}

// DefaultTerms restores the production term lengths and candidate list size.
func DefaultTerms() {
	params.TermDuration = 1000000
	params.InterimDuration = 1000
	params.RewardCheckHeight = 100000
	store.VerifSetMaxCandidateCount(20)
}

// ResetGlobals puts every process global the product keeps into a known state. Called at the top of each case.
func ResetGlobals() {
	Quiet()
	DefaultTerms()
	subscribe.ClearSub()
	consensus.VerifResetSigCache()
}

// Node is a full node assembled exactly as main/node does it (minus network and miner timers).
type Node struct {
	World       *World
	Dir         string
	DeputyCount int
	DB          *store.ChainDatabase
	DM          *deputynode.Manager
	Pool        *txpool.TxPool
	BC          *chain.BlockChain
	Engine      *consensus.DPoVP
	Self        *Deputy // identity used when this node acts (may be nil: plain validator, uses the outsider key)
	Genesis     *types.Block
	autoGenesis bool
}

// NewNode creates the data dir, writes genesis and starts the chain. self may be nil.
func NewNode(w *World, self *Deputy, deputyCount int) *Node {
	n := &Node{World: w, Dir: NewDir(), DeputyCount: deputyCount, Self: self}
	n.open(true)
	return n
}

// The engine arms a 30 s timer (FetchRemoteConfirms) on every stable block; until it fires it keeps the whole node reachable
// (the two 2 MB channels every store allocates, LevelDB buffers, blocks). A process that creates and destroys nodes at full
// speed therefore sits on (nodes per second) x 30 s x 5..35 MB. throttle delays the creation of the next node while the live
// heap is above the budget the driver hands down ($VERIF_NODE_BUDGET_MB for this process), so that many shards together never
// exhaust the machine. It waits at most 80 s (the timers have fired by then) and never fails a case.
func throttle() {
	budget := uint64(2500)
	if v, err := strconv.Atoi(os.Getenv("VERIF_NODE_BUDGET_MB")); err == nil && v > 0 {
		budget = uint64(v)
	}
	budget = budget << 20 * 6 / 10 // live data; the driver runs the processes with GOGC=50, so the heap stays below 1.5 x that
	var ms runtime.MemStats
	for i := 0; i < 400; i++ {
		runtime.ReadMemStats(&ms)
		if ms.HeapAlloc < budget {
			return
		}
		runtime.GC()
		runtime.ReadMemStats(&ms)
		if ms.HeapAlloc < budget {
			return
		}
		time.Sleep(200 * time.Millisecond)
	}
}

func (n *Node) open(fresh bool) {
	throttle()
	n.BecomeSelf()
	n.DB = store.NewChainDataBase(n.Dir)
	if n.autoGenesis {
		// main/node.getGenesis: no block of height 0 => set the genesis up
		_, err := n.DB.GetBlockByHeight(0)
		if err == store.ErrBlockNotExist {
			fresh = true
		} else if err != nil {
			panic(fmt.Sprintf("can't get genesis block. err: %v", err))
		}
	}
	if fresh {
		n.Genesis = chain.SetupGenesisBlock(n.DB, n.World.Genesis())
	}
	n.DM = deputynode.NewManager(n.DeputyCount, n.DB)
	n.Pool = txpool.NewTxPool()
	bc, err := chain.NewBlockChain(chain.Config{ChainID: ChainID, MineTimeout: MineTimeoutMs}, n.DM, n.DB, flag.CmdFlags{}, n.Pool)
	if err != nil {
		panic(fmt.Sprintf("NewBlockChain: %v", err))
	}
	n.BC = bc
	n.Engine = bc.VerifEngine()
	if n.Genesis == nil {
		n.Genesis = bc.Genesis()
	}
}

// FixedIdentity, when set, freezes the process-wide node key: BecomeSelf / ActAs no longer write the globals. For race-detector
// runs, where a harness write of a process global racing with a leftover product goroutine of an earlier case would be
// reported as a data race of the product.
var FixedIdentity *Deputy

// BecomeSelf installs this node's identity into the process globals (node key, empty signature cache).
func (n *Node) BecomeSelf() {
	if FixedIdentity != nil {
		return
	}
	if n.Self != nil {
		deputynode.SetSelfNodeKey(n.Self.NodeKey)
	} else {
		deputynode.SetSelfNodeKey(n.World.Outsider.NodeKey)
	}
	consensus.VerifResetSigCache()
}

// ActAs switches the identity the node signs with (block factory playing several deputies).
func (n *Node) ActAs(d *Deputy) {
	n.Self = d
	n.BecomeSelf()
}

// Close stops the chain and closes the database, the directory stays.
func (n *Node) Close() {
	if n.BC != nil {
		n.BC.Stop()
		n.BC = nil
	}
	if n.DB != nil {
		// let the asynchronous bitcask writer drain: Close() only closes the quit channel
		n.Drain()
		n.DB.Close()
		n.DB = nil
	}
}

// Drain waits until the store's write queue has been applied (bounded wait, never a verdict).
func (n *Node) Drain() {
	deadline := time.Now().Add(5 * time.Second)
	for time.Now().Before(deadline) {
		if n.DB.Beansdb.VerifPending() == 0 {
			return
		}
		time.Sleep(2 * time.Millisecond)
	}
}

// Reopen simulates a clean restart of the node process on the same data dir.
func (n *Node) Reopen() {
	n.Close()
	n.open(false)
}

// Destroy closes and removes the data dir.
func (n *Node) Destroy() {
	n.Close()
	os.RemoveAll(n.Dir)
}

// View returns a fresh account manager positioned at the given block.
func (n *Node) View(hash common.Hash) *account.Manager {
	return account.NewManager(hash, n.DB)
}

// Current / Stable shortcuts.
func (n *Node) Current() *types.Block { return n.BC.CurrentBlock() }
func (n *Node) Stable() *types.Block  { return n.BC.StableBlock() }

// EncodeBlock gives the wire bytes of a block.
func EncodeBlock(b *types.Block) []byte {
	buf, err := rlp.EncodeToBytes(b)
	if err != nil {
		panic(err)
	}
	return buf
}

// DecodeBlock parses wire bytes into a fresh block object (so that nodes never share pointers).
func DecodeBlock(buf []byte) *types.Block {
	var b types.Block
	if err := rlp.DecodeBytes(buf, &b); err != nil {
		panic(fmt.Sprintf("decode block: %v", err))
	}
	return &b
}

// CloneBlock round-trips a block through its encoding.
func CloneBlock(b *types.Block) *types.Block { return DecodeBlock(EncodeBlock(b)) }

// Insert hands a block to the node the way the network layer does: a freshly decoded object.
func (n *Node) Insert(b *types.Block) error {
	n.BecomeSelf()
	return n.BC.InsertBlock(CloneBlock(b))
}

var _ = io.EOF

// NewNodeAt creates (or, when the directory already holds a database, reopens) a node on the given data directory.
// Like main/node it writes the genesis block exactly when the database has no block of height 0.
func NewNodeAt(w *World, self *Deputy, deputyCount int, dir string) *Node {
	n := &Node{World: w, Dir: dir, DeputyCount: deputyCount, Self: self, autoGenesis: true}
	n.open(false)
	return n
}

// CloseDB closes a store the way a process exit does for the test's purposes: the background writer is allowed to finish
// first. ChainDatabase.Close only signals the writer; reopening (or deleting) the directory while the old writer still runs
// would have two writers on one set of files - something a real restart cannot produce.
func CloseDB(db *store.ChainDatabase) {
	deadline := time.Now().Add(5 * time.Second)
	for time.Now().Before(deadline) && db.Beansdb.VerifPending() != 0 {
		time.Sleep(time.Millisecond)
	}
	db.Close()
}
