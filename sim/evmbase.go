package sim

import (
	"fmt"
	"math/big"

	"github.com/LemoFoundationLtd/lemochain-core/chain/account"
	"github.com/LemoFoundationLtd/lemochain-core/chain/types"
	"github.com/LemoFoundationLtd/lemochain-core/common"
	"github.com/LemoFoundationLtd/lemochain-core/store"
	"pgregory.net/rapid"
)

// EvmBase is a database with one stable block whose accounts the EVM cases start from: funded senders and contract
// slots which already own balance and trie-backed storage (their code is installed per case).
type EvmBase struct {
	DB        *store.ChainDatabase
	Hash      common.Hash
	Senders   []common.Address
	Contracts []common.Address
	EOA       common.Address // an account without code that receives value
	Absent    common.Address // not in the database
	Miner     common.Address
}

func NewEvmBase() *EvmBase {
	b := &EvmBase{
		DB:      store.NewChainDataBase(NewDir()),
		Senders: []common.Address{common.HexToAddress("0x01000000000000000000000000000000000005e1"), common.HexToAddress("0x01000000000000000000000000000000000005e2")},
		Contracts: []common.Address{common.HexToAddress("0x0200000000000000000000000000000000000c01"), common.HexToAddress("0x0200000000000000000000000000000000000c02"),
			common.HexToAddress("0x0200000000000000000000000000000000000c03")},
		EOA:    common.HexToAddress("0x01000000000000000000000000000000000000e0"),
		Absent: common.HexToAddress("0x01000000000000000000000000000000000000ab"),
		Miner:  common.HexToAddress("0x0100000000000000000000000000000000000111"),
	}
	am := account.NewManager(common.Hash{}, b.DB)
	for _, s := range b.Senders {
		am.GetAccount(s).SetBalance(big.NewInt(1000000000000))
	}
	for i, c := range b.Contracts {
		acc := am.GetAccount(c)
		acc.SetBalance(big.NewInt(int64(1000 * (i + 1))))
		if i < 2 { // the third slot has no storage trie yet
			_ = acc.SetStorageState(common.BigToHash(big.NewInt(0)), []byte{0x11})
			_ = acc.SetStorageState(common.BigToHash(big.NewInt(2)), common.HexToHash("0x2222222222222222222222222222222222222222222222222222222222222222").Bytes())
		}
	}
	am.GetAccount(b.EOA).SetBalance(big.NewInt(5))
	if err := am.Finalise(); err != nil {
		panic(err)
	}
	logs := am.GetChangeLogs()
	header := &types.Header{Height: 0, VersionRoot: am.GetVersionRoot(), LogRoot: logs.MerkleRootSha(), Time: T0, MinerAddress: b.Miner}
	block := types.NewBlock(header, nil, logs)
	block.SetDeputyNodes(types.DeputyNodes{})
	b.Hash = block.Hash()
	if err := b.DB.SetBlock(b.Hash, block); err != nil {
		panic(err)
	}
	if err := am.Save(b.Hash); err != nil {
		panic(err)
	}
	if _, err := b.DB.SetStableBlock(b.Hash); err != nil {
		panic(err)
	}
	return b
}

// EvmCase is a generated scenario: programs installed on the contract slots and a list of top-level entries.
type EvmCase struct {
	Programs [][]byte
	Calls    []*EvmCall
	Stats    ProgStats
}

// Precompiles a generated program may call.
var Precompiles = []common.Address{common.BytesToAddress([]byte{1}), common.BytesToAddress([]byte{2}), common.BytesToAddress([]byte{4}), common.BytesToAddress([]byte{5}), common.BytesToAddress([]byte{9})}

// GenEvmCase draws a scenario. raw=true mixes in arbitrary byte strings as code.
func (b *EvmBase) GenEvmCase(t *rapid.T) *EvmCase {
	c := &EvmCase{}
	for i, self := range b.Contracts {
		var others []common.Address
		for j, o := range b.Contracts {
			if j != i {
				others = append(others, o)
			}
		}
		others = append(others, Precompiles...)
		others = append(others, b.EOA, b.Absent)
		env := &EvmEnv{Self: self, Targets: others}
		switch rapid.IntRange(0, 9).Draw(t, "codekind") {
		case 0: // arbitrary bytes
			c.Programs = append(c.Programs, rapid.SliceOfN(rapid.Byte(), 0, 60).Draw(t, "rawcode"))
		case 1: // a grammar program with a few bytes damaged
			p := GenProgram(t, env, &c.Stats)
			for k := 0; k < rapid.IntRange(1, 3).Draw(t, "ndamage") && len(p) > 0; k++ {
				p[rapid.IntRange(0, len(p)-1).Draw(t, "dpos")] = rapid.Byte().Draw(t, "dval")
			}
			c.Programs = append(c.Programs, p)
		default:
			c.Programs = append(c.Programs, GenProgram(t, env, &c.Stats))
		}
	}
	n := rapid.IntRange(1, 3).Draw(t, "nentries")
	for i := 0; i < n; i++ {
		call := &EvmCall{From: b.Senders[rapid.IntRange(0, len(b.Senders)-1).Draw(t, "sender")], TxHash: common.BytesToHash([]byte{0xee, byte(i + 1)})}
		call.Value = big.NewInt(int64(rapid.SampledFrom([]int{0, 0, 1, 10, 100000}).Draw(t, "value")))
		switch rapid.IntRange(0, 4).Draw(t, "gask") {
		case 0:
			call.Gas = uint64(rapid.IntRange(0, 30000).Draw(t, "lowgas"))
		case 1:
			call.Gas = uint64(rapid.IntRange(30000, 400000).Draw(t, "midgas"))
		default:
			call.Gas = 3000000
		}
		call.Input = rapid.SliceOfN(rapid.Byte(), 0, 40).Draw(t, "calldata")
		switch rapid.IntRange(0, 6).Draw(t, "entry") {
		case 0:
			call.Kind = "static"
			call.To = b.Contracts[rapid.IntRange(0, len(b.Contracts)-1).Draw(t, "to")]
			call.Value = new(big.Int)
		case 1:
			call.Kind = "create"
			env := &EvmEnv{Self: common.Address{}, Targets: append(append([]common.Address{}, b.Contracts...), b.EOA)}
			switch rapid.IntRange(0, 2).Draw(t, "initkind") {
			case 0:
				call.Input = DeployCode(GenProgram(t, env, &c.Stats)) // constructor returns a generated runtime
			case 1:
				call.Input = GenProgram(t, env, &c.Stats) // the generated program IS the constructor
			default:
				call.Input = append([]byte{}, initCodes[rapid.IntRange(0, len(initCodes)-1).Draw(t, "tinyinit")]...)
			}
		case 2:
			call.Kind = "call"
			call.To = Precompiles[rapid.IntRange(0, len(Precompiles)-1).Draw(t, "precompile")]
			call.Input = rapid.SliceOfN(rapid.Byte(), 0, 200).Draw(t, "precompileInput")
		case 3:
			call.Kind = "call"
			call.To = rapid.SampledFrom([]common.Address{b.EOA, b.Absent}).Draw(t, "plainTo")
		default:
			call.Kind = "call"
			call.To = b.Contracts[rapid.IntRange(0, len(b.Contracts)-1).Draw(t, "to")]
		}
		c.Calls = append(c.Calls, call)
	}
	return c
}

// Describe writes the case out for evidence samples and failure messages.
func (c *EvmCase) Describe() []string {
	var out []string
	for i, p := range c.Programs {
		out = append(out, fmt.Sprintf("code[c0%d]=%x", i+1, p))
	}
	for _, call := range c.Calls {
		out = append(out, fmt.Sprintf("%s from=%s to=%s gas=%d value=%v input=%x", call.Kind, call.From.Hex()[36:], call.To.Hex()[36:], call.Gas, call.Value, call.Input))
	}
	return out
}
