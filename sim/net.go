package sim

import (
	"crypto/ecdsa"
	"fmt"
	"io"
	"sync"
	"time"

	"github.com/LemoFoundationLtd/lemochain-core/chain/params"
	"github.com/LemoFoundationLtd/lemochain-core/chain/types"
	"github.com/LemoFoundationLtd/lemochain-core/common"
	"github.com/LemoFoundationLtd/lemochain-core/common/crypto"
	"github.com/LemoFoundationLtd/lemochain-core/common/rlp"
	"github.com/LemoFoundationLtd/lemochain-core/common/subscribe"
	"github.com/LemoFoundationLtd/lemochain-core/network"
	"github.com/LemoFoundationLtd/lemochain-core/network/p2p"
)

// OutMsg is one message the node wrote to a scripted peer.
type OutMsg struct {
	Code    p2p.MsgCode
	Content []byte
}

// ScriptPeer is a remote node played by the harness: it implements p2p.IPeer (the transport the protocol manager
// reads from and writes to), so that the real ProtocolManager handles every message exactly as it does for a TCP peer.
type ScriptPeer struct {
	id     p2p.NodeID
	in     chan *p2p.Msg
	closed chan struct{}
	once   sync.Once

	mu     sync.Mutex
	out    []OutMsg
	status int32
	// Serve, when set, is called for every message the node writes (e.g. to answer block requests)
	Serve func(code p2p.MsgCode, content []byte)
}

// NewScriptPeer makes a peer with the node id derived from a name.
func NewScriptPeer(name string) *ScriptPeer {
	k := Key("peer/" + name)
	var id p2p.NodeID
	copy(id[:], crypto.PrivateKeyToNodeID(k))
	return &ScriptPeer{id: id, in: make(chan *p2p.Msg, 4096), closed: make(chan struct{})}
}

func (p *ScriptPeer) ReadMsg() (*p2p.Msg, error) {
	select {
	case m := <-p.in:
		return m, nil
	case <-p.closed:
		return nil, io.EOF
	}
}

func (p *ScriptPeer) WriteMsg(code p2p.MsgCode, msg []byte) error {
	select {
	case <-p.closed:
		return io.ErrClosedPipe
	default:
	}
	p.mu.Lock()
	if len(p.out) >= 2000 { // keep the harness's own memory bounded: a block request may be answered with thousands of messages
		p.out = append(p.out[:0], p.out[1000:]...)
	}
	p.out = append(p.out, OutMsg{code, append([]byte(nil), msg...)})
	serve := p.Serve
	p.mu.Unlock()
	if serve != nil {
		serve(code, msg)
	}
	return nil
}

func (p *ScriptPeer) SetWriteDeadline(time.Duration)                   {}
func (p *ScriptPeer) RNodeID() *p2p.NodeID                             { return &p.id }
func (p *ScriptPeer) RAddress() string                                 { return "10.1.2.3:60001" }
func (p *ScriptPeer) LAddress() string                                 { return "10.1.2.4:60001" }
func (p *ScriptPeer) DoHandshake(*ecdsa.PrivateKey, *p2p.NodeID) error { return nil }
func (p *ScriptPeer) Run() error                                       { <-p.closed; return io.EOF }
func (p *ScriptPeer) NeedReConnect() bool                              { return false }
func (p *ScriptPeer) SetStatus(s int32)                                { p.mu.Lock(); p.status = s; p.mu.Unlock() }

// Close ends the connection, from either side. Like the p2p server it then tells the protocol manager that the peer is gone.
func (p *ScriptPeer) Close() {
	p.once.Do(func() {
		close(p.closed)
		subscribe.Send(subscribe.DeletePeer, p2p.IPeer(p))
	})
}

// Closed tells whether the node dropped the connection.
func (p *ScriptPeer) Closed() bool {
	select {
	case <-p.closed:
		return true
	default:
		return false
	}
}

// Out returns a copy of what the node wrote so far.
func (p *ScriptPeer) Out() []OutMsg {
	p.mu.Lock()
	defer p.mu.Unlock()
	return append([]OutMsg(nil), p.out...)
}

// Pending is the number of messages the node has not read yet.
func (p *ScriptPeer) Pending() int { return len(p.in) }

// Send queues one message for the node.
func (p *ScriptPeer) Send(code p2p.MsgCode, content []byte) {
	p.in <- &p2p.Msg{Code: code, Content: content, ReceivedAt: time.Now()}
}

// SendObj RLP-encodes v as the payload.
func (p *ScriptPeer) SendObj(code p2p.MsgCode, v interface{}) {
	buf, err := rlp.EncodeToBytes(v)
	if err != nil {
		panic(err)
	}
	p.Send(code, buf)
}

// SendBlocks sends a BlocksMsg carrying copies of the given blocks.
func (p *ScriptPeer) SendBlocks(blocks ...*types.Block) {
	bs := types.Blocks(blocks)
	p.SendObj(p2p.BlocksMsg, &bs)
}

// SendConfirm sends one broadcast confirm.
func (p *ScriptPeer) SendConfirm(b *types.Block, sig types.SignData) {
	p.SendObj(p2p.ConfirmMsg, &network.BlockConfirmData{Hash: b.Hash(), Height: b.Height(), SignInfo: sig})
}

// SendTxs sends a transaction batch.
func (p *ScriptPeer) SendTxs(txs types.Transactions) {
	p.SendObj(p2p.TxsMsg, &txs)
}

// NetNode is a node with the real protocol manager running on top of it.
type NetNode struct {
	*Node
	PM   *network.ProtocolManager
	Disc *p2p.DiscoverManager
}

// StartNet starts the real ProtocolManager on this node exactly as main/node wires it. One per process at a time
// (the subscribe hub is a process global).
func (n *Node) StartNet() *NetNode {
	n.BecomeSelf()
	disc := p2p.NewDiscoverManager(n.Dir)
	var self p2p.NodeID
	if n.Self != nil {
		copy(self[:], n.Self.NodeID)
	} else {
		copy(self[:], n.World.Outsider.NodeID)
	}
	pm := network.NewProtocolManager(ChainID, self, n.BC, n.DM, n.Pool, n.BC.TxGuard(), disc, 20, params.VersionUint(), n.Dir)
	pm.Start()
	return &NetNode{Node: n, PM: pm, Disc: disc}
}

// StopNet stops the protocol manager (the node stays open).
func (nn *NetNode) StopNet() {
	nn.PM.Stop()
}

// Connect hands a scripted peer to the protocol manager the way the p2p server does after the transport handshake and
// answers the protocol handshake with the given status (zero status: a peer that has nothing to offer, so no sync starts).
func (nn *NetNode) Connect(p *ScriptPeer, st network.LatestStatus) error {
	if st.CurHash == (common.Hash{}) {
		st = network.LatestStatus{CurHeight: 0, CurHash: nn.Genesis.Hash(), StaHeight: 0, StaHash: nn.Genesis.Hash()}
	}
	hs := &network.ProtocolHandshake{ChainID: ChainID, GenesisHash: nn.Genesis.Hash(), NodeVersion: params.VersionUint(), LatestStatus: st}
	p.Send(p2p.ProHandshakeMsg, hs.Bytes())
	subscribe.Send(subscribe.AddNewPeer, p2p.IPeer(p))
	// registered and served = it answers a status request (the peer count may go down at the same time: other peers leaving)
	buf, _ := rlp.EncodeToBytes(&network.GetLatestStatus{})
	p.Send(p2p.GetLstStatusMsg, buf)
	deadline := time.Now().Add(10 * time.Second)
	for time.Now().Before(deadline) {
		for _, m := range p.Out() {
			if m.Code == p2p.LstStatusMsg {
				return nil
			}
		}
		time.Sleep(time.Millisecond)
	}
	return fmt.Errorf("peer not registered within 10s")
}

// AddPeer hands a connection to the protocol manager without answering the protocol handshake (the caller queued whatever
// the remote says first).
func (nn *NetNode) AddPeer(p *ScriptPeer) {
	subscribe.Send(subscribe.AddNewPeer, p2p.IPeer(p))
}
