package sim

import (
	"encoding/json"
	"os"
)

// Journal writes the case in flight to $VERIF_CASEFILE *before* it is delivered, so that when a product goroutine
// takes the whole process down (a panic outside the test goroutine cannot be recovered) the driver still has the input.
func Journal(v interface{}) {
	path := os.Getenv("VERIF_CASEFILE")
	if path == "" {
		return
	}
	buf, err := json.Marshal(v)
	if err != nil {
		return
	}
	tmp := path + ".tmp"
	if os.WriteFile(tmp, buf, 0644) == nil {
		os.Rename(tmp, path)
	}
}

// ReplayCase loads a journaled case ($VERIF_REPLAY) into v; false when no replay was requested.
func ReplayCase(v interface{}) bool {
	path := os.Getenv("VERIF_REPLAY")
	if path == "" {
		return false
	}
	buf, err := os.ReadFile(path)
	if err != nil {
		panic(err)
	}
	if err := json.Unmarshal(buf, v); err != nil {
		panic(err)
	}
	return true
}

// JournalDone removes the journal after a case that ended normally.
func JournalDone() {
	if path := os.Getenv("VERIF_CASEFILE"); path != "" {
		os.Remove(path)
	}
}
