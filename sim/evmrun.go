package sim

import (
	"fmt"
	"math/big"
	"time"

	"github.com/LemoFoundationLtd/lemochain-core/chain/account"
	"github.com/LemoFoundationLtd/lemochain-core/chain/types"
	"github.com/LemoFoundationLtd/lemochain-core/chain/vm"
	"github.com/LemoFoundationLtd/lemochain-core/common"
)

// RecOp is one recorded account mutation, replayable on any manager.
type RecOp struct {
	Desc string
	Do   func(am *account.Manager)
	Noop bool // writes the value that is there already (a zero-value transfer does that)
}

// Proxy wraps a real account.Manager as vm.AccountManager. It records every mutation the EVM performs through the
// account accessors, cuts the record at every RevertToSnapshot exactly like the journal is supposed to, and so knows
// which operations must have survived. It also counts snapshots / reverts / nesting.
type Proxy struct {
	AM       *account.Manager
	Survived []*RecOp
	marks    map[int]int // snapshot id -> len(Survived)
	Touched  map[common.Address]bool
	Keys     Keys
	// statistics
	Snapshots, Reverts, MaxLive int
	live                        []int
	RevertAfterWrite            bool // a revert undid at least one write
	WriteAfterRevert            bool
	NestedFailThenWrite         bool // a revert happened, then another write: the shape of the journal counter defect
	MutationsInStatic           int
	Panic                       interface{}
	// CodeOverwritten: addresses on which the EVM set code although the account already held code (a second CREATE of the same
	// caller in one transaction lands on the same address: the collision test only knows accounts of earlier blocks)
	CodeOverwritten map[common.Address]bool
}

func NewProxy(am *account.Manager) *Proxy {
	return &Proxy{AM: am, marks: map[int]int{}, Touched: map[common.Address]bool{}, CodeOverwritten: map[common.Address]bool{}}
}

func (p *Proxy) record(desc string, do func(am *account.Manager)) {
	p.Survived = append(p.Survived, &RecOp{Desc: desc, Do: do})
	if p.Reverts > 0 {
		p.WriteAfterRevert = true
		p.NestedFailThenWrite = true
	}
}

func (p *Proxy) GetAccount(addr common.Address) types.AccountAccessor {
	p.Touched[addr] = true
	return &recAccount{AccountAccessor: p.AM.GetAccount(addr), p: p, addr: addr}
}

func (p *Proxy) Snapshot() int {
	id := p.AM.Snapshot()
	p.marks[id] = len(p.Survived)
	p.Snapshots++
	p.live = append(p.live, id)
	if len(p.live) > p.MaxLive {
		p.MaxLive = len(p.live)
	}
	return id
}

func (p *Proxy) RevertToSnapshot(id int) {
	p.AM.RevertToSnapshot(id)
	if n, ok := p.marks[id]; ok {
		if len(p.Survived) > n {
			p.RevertAfterWrite = true
		}
		p.Survived = p.Survived[:n]
	}
	for i, l := range p.live {
		if l == id {
			p.live = p.live[:i]
			break
		}
	}
	p.Reverts++
}

func (p *Proxy) AddEvent(e *types.Event) {
	ev := *e
	p.record(fmt.Sprintf("AddEvent(%s,%v)", e.Address.Hex()[34:], e.Topics), func(am *account.Manager) { c := ev; am.AddEvent(&c) })
	p.AM.AddEvent(e)
}

type recAccount struct {
	types.AccountAccessor
	p    *Proxy
	addr common.Address
}

func (r *recAccount) SetBalance(b *big.Int) {
	v := new(big.Int).Set(b)
	same := r.AccountAccessor.GetBalance().Cmp(b) == 0
	r.p.record(fmt.Sprintf("SetBalance(%s,%v)", r.addr.Hex()[34:], v), func(am *account.Manager) { am.GetAccount(r.addr).SetBalance(v) })
	r.p.Survived[len(r.p.Survived)-1].Noop = same
	r.AccountAccessor.SetBalance(b)
}

func (r *recAccount) SetCode(c types.Code) {
	cp := types.Code(common.CopyBytes(c))
	if old, err := r.AccountAccessor.GetCode(); err == nil && len(old) > 0 {
		r.p.CodeOverwritten[r.addr] = true
	}
	r.p.record(fmt.Sprintf("SetCode(%s,%d bytes)", r.addr.Hex()[34:], len(c)), func(am *account.Manager) { am.GetAccount(r.addr).SetCode(cp) })
	r.AccountAccessor.SetCode(c)
}

func (r *recAccount) SetStorageState(k common.Hash, v []byte) error {
	cp := common.CopyBytes(v)
	r.p.Keys.AddStorage(k)
	r.p.record(fmt.Sprintf("SetStorage(%s,%s,%x)", r.addr.Hex()[34:], k.Hex()[58:], cp), func(am *account.Manager) { _ = am.GetAccount(r.addr).SetStorageState(k, cp) })
	return r.AccountAccessor.SetStorageState(k, v)
}

func (r *recAccount) GetStorageState(k common.Hash) ([]byte, error) {
	r.p.Keys.AddStorage(k)
	return r.AccountAccessor.GetStorageState(k)
}

func (r *recAccount) SetSuicide(s bool) {
	r.p.record(fmt.Sprintf("SetSuicide(%s,%v)", r.addr.Hex()[34:], s), func(am *account.Manager) { am.GetAccount(r.addr).SetSuicide(s) })
	r.AccountAccessor.SetSuicide(s)
}

func (r *recAccount) SetEquityState(id common.Hash, e *types.AssetEquity) error {
	var cp *types.AssetEquity
	if e != nil {
		cp = e.Clone()
	}
	r.p.Keys.AddId(id)
	r.p.record(fmt.Sprintf("SetEquity(%s,%s,%v)", r.addr.Hex()[34:], id.Hex()[58:], cp), func(am *account.Manager) { _ = am.GetAccount(r.addr).SetEquityState(id, cp) })
	return r.AccountAccessor.SetEquityState(id, e)
}

func (r *recAccount) SetAssetCodeTotalSupply(code common.Hash, v *big.Int) error {
	cp := new(big.Int).Set(v)
	r.p.Keys.AddCode(code)
	r.p.record(fmt.Sprintf("SetTotalSupply(%s,%s,%v)", r.addr.Hex()[34:], code.Hex()[58:], cp), func(am *account.Manager) { _ = am.GetAccount(r.addr).SetAssetCodeTotalSupply(code, cp) })
	return r.AccountAccessor.SetAssetCodeTotalSupply(code, v)
}

func (r *recAccount) SetAssetCode(code common.Hash, a *types.Asset) error {
	cp := a.Clone()
	r.p.Keys.AddCode(code)
	r.p.record(fmt.Sprintf("SetAssetCode(%s,%s)", r.addr.Hex()[34:], code.Hex()[58:]), func(am *account.Manager) { _ = am.GetAccount(r.addr).SetAssetCode(code, cp) })
	return r.AccountAccessor.SetAssetCode(code, a)
}

func (r *recAccount) SetAssetCodeState(code common.Hash, k, v string) error {
	r.p.record(fmt.Sprintf("SetAssetCodeState(%s,%s,%s=%s)", r.addr.Hex()[34:], code.Hex()[58:], k, v), func(am *account.Manager) { _ = am.GetAccount(r.addr).SetAssetCodeState(code, k, v) })
	return r.AccountAccessor.SetAssetCodeState(code, k, v)
}

func (r *recAccount) SetAssetIdState(id common.Hash, d string) error {
	r.p.Keys.AddId(id)
	r.p.record(fmt.Sprintf("SetAssetId(%s,%s)", r.addr.Hex()[34:], id.Hex()[58:]), func(am *account.Manager) { _ = am.GetAccount(r.addr).SetAssetIdState(id, d) })
	return r.AccountAccessor.SetAssetIdState(id, d)
}

func (r *recAccount) SetVotes(v *big.Int) {
	cp := new(big.Int).Set(v)
	r.p.record(fmt.Sprintf("SetVotes(%s,%v)", r.addr.Hex()[34:], cp), func(am *account.Manager) { am.GetAccount(r.addr).SetVotes(cp) })
	r.AccountAccessor.SetVotes(v)
}

func (r *recAccount) SetVoteFor(a common.Address) {
	r.p.record(fmt.Sprintf("SetVoteFor(%s)", r.addr.Hex()[34:]), func(am *account.Manager) { am.GetAccount(r.addr).SetVoteFor(a) })
	r.AccountAccessor.SetVoteFor(a)
}

func (r *recAccount) SetCandidate(p types.Profile) {
	cp := types.Profile{}
	for k, v := range p {
		cp[k] = v
	}
	r.p.record(fmt.Sprintf("SetCandidate(%s)", r.addr.Hex()[34:]), func(am *account.Manager) { am.GetAccount(r.addr).SetCandidate(cp) })
	r.AccountAccessor.SetCandidate(p)
}

func (r *recAccount) SetCandidateState(k, v string) {
	r.p.record(fmt.Sprintf("SetCandidateState(%s,%s)", r.addr.Hex()[34:], k), func(am *account.Manager) { am.GetAccount(r.addr).SetCandidateState(k, v) })
	r.AccountAccessor.SetCandidateState(k, v)
}

func (r *recAccount) SetSingers(s types.Signers) error {
	cp := append(types.Signers{}, s...)
	r.p.record(fmt.Sprintf("SetSigners(%s)", r.addr.Hex()[34:]), func(am *account.Manager) { _ = am.GetAccount(r.addr).SetSingers(cp) })
	return r.AccountAccessor.SetSingers(s)
}

func (r *recAccount) PushEvent(e *types.Event) {
	ev := *e
	r.p.record(fmt.Sprintf("PushEvent(%s)", r.addr.Hex()[34:]), func(am *account.Manager) { c := ev; am.GetAccount(r.addr).PushEvent(&c) })
	r.AccountAccessor.PushEvent(e)
}

// ---- running the EVM through the proxy --------------------------------------------------------------------------

// DepthTracer records the deepest frame seen.
type DepthTracer struct{ Max int }

func (d *DepthTracer) CaptureStart(from common.Address, to common.Address, call bool, input []byte, gas uint64, value *big.Int) error {
	return nil
}
func (d *DepthTracer) CaptureState(env *vm.EVM, pc uint64, op vm.OpCode, gas, cost uint64, memory *vm.Memory, stack *vm.Stack, contract *vm.Contract, depth int, err error) error {
	if depth > d.Max {
		d.Max = depth
	}
	return nil
}
func (d *DepthTracer) CaptureFault(env *vm.EVM, pc uint64, op vm.OpCode, gas, cost uint64, memory *vm.Memory, stack *vm.Stack, contract *vm.Contract, depth int, err error) error {
	if depth > d.Max {
		d.Max = depth
	}
	return nil
}
func (d *DepthTracer) CaptureEnd(output []byte, gasUsed uint64, t time.Duration, err error) error {
	return nil
}

// EvmCall describes one top-level entry into the EVM.
type EvmCall struct {
	Kind   string // "call", "create", "static"
	From   common.Address
	To     common.Address
	Input  []byte // call data, or init code for create
	Gas    uint64
	Value  *big.Int
	TxHash common.Hash
}

// EvmResult is what came back.
type EvmResult struct {
	Ret      []byte
	GasLeft  uint64
	Err      string
	Created  common.Address
	MaxDepth int
	Panic    interface{}
}

func (r EvmResult) String() string {
	return fmt.Sprintf("ret=%x gasLeft=%d err=%q created=%s panic=%v", r.Ret, r.GasLeft, r.Err, r.Created.Hex(), r.Panic)
}

// NewContext builds the EVM context used for direct executions (block 5 at T0+50).
func NewContext(c *EvmCall, miner common.Address) vm.Context {
	return vm.Context{
		CanTransfer: func(am vm.AccountManager, addr common.Address, amount *big.Int) bool {
			return am.GetAccount(addr).GetBalance().Cmp(amount) >= 0
		},
		Transfer: func(am vm.AccountManager, sender, recipient common.Address, amount *big.Int) {
			s, r := am.GetAccount(sender), am.GetAccount(recipient)
			s.SetBalance(new(big.Int).Sub(s.GetBalance(), amount))
			r.SetBalance(new(big.Int).Add(r.GetBalance(), amount))
		},
		GetHash:      func(n uint32) common.Hash { return common.BytesToHash([]byte{byte(n), 0xbb}) },
		TxIndex:      0,
		TxHash:       c.TxHash,
		Origin:       c.From,
		MinerAddress: miner,
		BlockHeight:  5,
		Time:         T0 + 50,
		GasLimit:     105000000,
		GasPrice:     big.NewInt(1),
	}
}

// RunEVM executes one entry through am (a Proxy or a plain manager) and never lets a panic escape.
func RunEVM(am vm.AccountManager, c *EvmCall, miner common.Address, trace bool) (res EvmResult) {
	tr := &DepthTracer{}
	cfg := vm.Config{}
	if trace {
		cfg.Debug = true
		cfg.Tracer = tr
	}
	evm := vm.NewEVM(NewContext(c, miner), am, cfg)
	defer func() {
		if r := recover(); r != nil {
			res.Panic = r
		}
		res.MaxDepth = tr.Max
	}()
	var err error
	switch c.Kind {
	case "call":
		res.Ret, res.GasLeft, err = evm.Call(vm.AccountRef(c.From), c.To, c.Input, c.Gas, c.Value)
	case "static":
		res.Ret, res.GasLeft, err = evm.StaticCall(vm.AccountRef(c.From), c.To, c.Input, c.Gas)
	case "create":
		res.Ret, res.Created, res.GasLeft, err = evm.Create(vm.AccountRef(c.From), c.Input, c.Gas, c.Value)
	}
	if err != nil {
		res.Err = err.Error()
	}
	return res
}
