// Package sim is the shared harness library for the lemochain-core property checks.
package sim

import (
	_ "github.com/LemoFoundationLtd/lemochain-core/chain"
	_ "pgregory.net/rapid"
)
