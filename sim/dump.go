package sim

import (
	"fmt"
	"math/big"
	"sort"
	"strings"

	"github.com/LemoFoundationLtd/lemochain-core/chain/account"
	"github.com/LemoFoundationLtd/lemochain-core/chain/types"
	"github.com/LemoFoundationLtd/lemochain-core/common"
)

// Keys is the universe of per-account keys a dump looks at (harvested from change logs, generators and proxies).
type Keys struct {
	Storage []common.Hash
	Codes   []common.Hash // asset codes
	Ids     []common.Hash // asset ids (equity / metadata)
}

func (k *Keys) AddStorage(h common.Hash) { k.Storage = addUnique(k.Storage, h) }
func (k *Keys) AddCode(h common.Hash)    { k.Codes = addUnique(k.Codes, h) }
func (k *Keys) AddId(h common.Hash)      { k.Ids = addUnique(k.Ids, h) }

func addUnique(list []common.Hash, h common.Hash) []common.Hash {
	for _, x := range list {
		if x == h {
			return list
		}
	}
	return append(list, h)
}

// HarvestLogs adds every key named in change logs to the universe and returns the addresses touched.
func (k *Keys) HarvestLogs(logs types.ChangeLogSlice) []common.Address {
	var addrs []common.Address
	seen := map[common.Address]bool{}
	for _, l := range logs {
		if !seen[l.Address] {
			seen[l.Address] = true
			addrs = append(addrs, l.Address)
		}
		if h, ok := l.Extra.(common.Hash); ok {
			switch l.LogType {
			case account.StorageLog:
				k.AddStorage(h)
			case account.AssetCodeLog, account.AssetCodeTotalSupplyLog:
				k.AddCode(h)
			case account.AssetIdLog, account.EquityLog:
				k.AddId(h)
			}
		}
		if e, ok := l.Extra.(*account.ProfileChangeLogExtra); ok && e != nil {
			k.AddCode(e.UUID)
		}
	}
	return addrs
}

// AccountDump is the observable state of one account through the public accessor, written out as sorted text lines.
type AccountDump []string

// DumpOptions selects what is rendered.
type DumpOptions struct {
	Versions  bool // include version records (they differ between a provisional and a finalised state)
	Raw       bool // include raw in-memory details from the verif hook (dirty maps, provisional counters, code-dirty flag)
	Roots     bool // include the four trie roots (only meaningful on finalised states)
	NoSuicide bool // leave the self-destruct flag out (it lives in memory only, a state loaded from the store never has it)
}

func normCodeHash(h common.Hash) string {
	if h == (common.Hash{}) || h == common.Sha3Nil {
		return "none"
	}
	return h.Hex()
}

// DumpAccount renders one account.
func DumpAccount(acc types.AccountAccessor, keys *Keys, opt DumpOptions) AccountDump {
	var d AccountDump
	add := func(format string, args ...interface{}) { d = append(d, fmt.Sprintf(format, args...)) }
	add("balance=%s", acc.GetBalance())
	add("codehash=%s", normCodeHash(acc.GetCodeHash()))
	code, err := acc.GetCode()
	add("code=%x err=%v", []byte(code), err)
	if !opt.NoSuicide {
		add("suicide=%v", acc.GetSuicide())
	}
	add("votefor=%s", acc.GetVoteFor().Hex())
	add("votes=%s", acc.GetVotes())
	prof := acc.GetCandidate()
	pk := make([]string, 0, len(prof))
	for k := range prof {
		pk = append(pk, k)
	}
	sort.Strings(pk)
	for _, k := range pk {
		add("profile[%q]=%q", k, prof[k])
	}
	for i, s := range acc.GetSigners() {
		add("signer[%d]=%s/%d", i, s.Address.Hex(), s.Weight)
	}
	if opt.Roots {
		add("roots=%s %s %s %s", acc.GetStorageRoot().Hex(), acc.GetAssetCodeRoot().Hex(), acc.GetAssetIdRoot().Hex(), acc.GetEquityRoot().Hex())
	}
	if keys != nil {
		for _, k := range keys.Storage {
			v, err := acc.GetStorageState(k)
			if len(v) > 0 || err != nil {
				add("storage[%s]=%x err=%v", k.Hex(), trimZeros(v), err)
			}
		}
		for _, c := range keys.Codes {
			a, err := acc.GetAssetCode(c)
			if err == nil && a != nil {
				add("asset[%s]=%s", c.Hex(), renderAsset(a))
			} else if err != nil && err != types.ErrAssetNotExist {
				add("asset[%s] err=%v", c.Hex(), err)
			}
		}
		for _, id := range keys.Ids {
			meta, err := acc.GetAssetIdState(id)
			if err == nil {
				// empty metadata is not distinguishable from "no such id" once the state is stored (empty trie values are deletions)
				if meta != "" {
					add("assetid[%s]=%q", id.Hex(), meta)
				}
			} else if err != types.ErrAssetIdNotExist {
				add("assetid[%s] err=%v", id.Hex(), err)
			}
			eq, err := acc.GetEquityState(id)
			if err == nil && eq != nil {
				add("equity[%s]=%s/%s/%s", id.Hex(), eq.AssetCode.Hex(), eq.AssetId.Hex(), eq.Equity)
			} else if err != nil && err != types.ErrEquityNotExist {
				add("equity[%s] err=%v", id.Hex(), err)
			}
		}
	}
	if opt.Versions || opt.Raw {
		raw := account.VerifDump(acc)
		if raw != nil {
			if opt.Versions {
				var vs []string
				for t, r := range raw.Data.NewestRecords {
					vs = append(vs, fmt.Sprintf("%02d:%d@%d", uint32(t), r.Version, r.Height))
				}
				sort.Strings(vs)
				add("versions=%s", strings.Join(vs, ","))
			}
			if opt.Raw {
				var ps []string
				for t, v := range raw.NewestRecords {
					ps = append(ps, fmt.Sprintf("%02d:%d", uint32(t), v))
				}
				sort.Strings(ps)
				add("provisional=%s", strings.Join(ps, ","))
				add("dirty=%d/%d/%d/%d codedirty=%v events=%d", len(raw.StorageDirty), len(raw.CodeDirty), len(raw.IdDirty), len(raw.EquityDirty), raw.CodeIsDirty, raw.Events)
			}
		}
	}
	return d
}

func trimZeros(b []byte) []byte {
	i := 0
	for i < len(b) && b[i] == 0 {
		i++
	}
	return b[i:]
}

func renderAsset(a *types.Asset) string {
	pk := make([]string, 0, len(a.Profile))
	for k := range a.Profile {
		pk = append(pk, k)
	}
	sort.Strings(pk)
	var sb strings.Builder
	for _, k := range pk {
		fmt.Fprintf(&sb, "%q=%q,", k, a.Profile[k])
	}
	return fmt.Sprintf("{cat=%d div=%v code=%s dec=%d supply=%s repl=%v issuer=%s profile={%s}}", a.Category, a.IsDivisible, a.AssetCode.Hex(), a.Decimal, a.TotalSupply, a.IsReplenishable, a.Issuer.Hex(), sb.String())
}

// StateDump is the dump of several accounts.
type StateDump map[common.Address]AccountDump

// AccountGetter is anything that hands out accounts (account.Manager, ReadOnlyManager, LogProcessor).
type AccountGetter interface {
	GetAccount(addr common.Address) types.AccountAccessor
}

// DumpState renders the given accounts.
func DumpState(am AccountGetter, addrs []common.Address, keys *Keys, opt DumpOptions) StateDump {
	res := StateDump{}
	for _, a := range addrs {
		res[a] = DumpAccount(am.GetAccount(a), keys, opt)
	}
	return res
}

// Diff lists the differences between two state dumps (empty string: equal).
func (a StateDump) Diff(b StateDump) string {
	var out []string
	addrs := map[common.Address]bool{}
	for k := range a {
		addrs[k] = true
	}
	for k := range b {
		addrs[k] = true
	}
	list := make([]common.Address, 0, len(addrs))
	for k := range addrs {
		list = append(list, k)
	}
	sort.Slice(list, func(i, j int) bool { return string(list[i][:]) < string(list[j][:]) })
	for _, addr := range list {
		la, lb := lineSet(a[addr]), lineSet(b[addr])
		for _, l := range a[addr] {
			if !lb[l] {
				out = append(out, fmt.Sprintf("%s  - %s", addr.Hex(), l))
			}
		}
		for _, l := range b[addr] {
			if !la[l] {
				out = append(out, fmt.Sprintf("%s  + %s", addr.Hex(), l))
			}
		}
	}
	return strings.Join(out, "\n")
}

func lineSet(d AccountDump) map[string]bool {
	m := make(map[string]bool, len(d))
	for _, l := range d {
		m[l] = true
	}
	return m
}

// RenderLogs writes change logs out (type, address, version, new value, extra) for comparison.
func RenderLogs(logs types.ChangeLogSlice, withVersion bool) []string {
	res := make([]string, 0, len(logs))
	for _, l := range logs {
		v := uint32(0)
		if withVersion {
			v = l.Version
		}
		res = append(res, fmt.Sprintf("%s %s v%d new=%s extra=%s", l.LogType, l.Address.Hex(), v, RenderVal(l.NewVal), RenderVal(l.Extra)))
	}
	return res
}

// RenderVal writes a change log value out with its dynamic type, independent of pointer identity and map order.
func RenderVal(v interface{}) string {
	switch x := v.(type) {
	case nil:
		return "nil"
	case big.Int:
		return "big.Int:" + x.String()
	case *big.Int:
		return "*big.Int:" + x.String()
	case []byte:
		return fmt.Sprintf("[]byte:%x", x)
	case types.Code:
		return fmt.Sprintf("Code:%x", []byte(x))
	case string:
		return fmt.Sprintf("string:%q", x)
	case common.Hash:
		return "Hash:" + x.Hex()
	case common.Address:
		return "Address:" + x.Hex()
	case *types.Profile:
		if x == nil {
			return "*Profile:nil"
		}
		return "*Profile:" + renderProfile(*x)
	case types.Profile:
		return "Profile:" + renderProfile(x)
	case *types.Asset:
		if x == nil {
			return "*Asset:nil"
		}
		return "*Asset:" + renderAsset(x)
	case *types.AssetEquity:
		if x == nil {
			return "*AssetEquity:nil"
		}
		return fmt.Sprintf("*AssetEquity:{%s %s %s}", x.AssetCode.Hex(), x.AssetId.Hex(), x.Equity)
	case types.Signers:
		return fmt.Sprintf("Signers:%v", []types.SignAccount(x))
	case *types.Event:
		if x == nil {
			return "*Event:nil"
		}
		return fmt.Sprintf("*Event:{%s %v %x idx=%d}", x.Address.Hex(), x.Topics, x.Data, x.Index)
	case *account.ProfileChangeLogExtra:
		if x == nil {
			return "*ProfileChangeLogExtra:nil"
		}
		return fmt.Sprintf("*ProfileChangeLogExtra:{%s %q}", x.UUID.Hex(), x.Key)
	default:
		return fmt.Sprintf("%T:%v", v, v)
	}
}

func renderProfile(p types.Profile) string {
	keys := make([]string, 0, len(p))
	for k := range p {
		keys = append(keys, k)
	}
	sort.Strings(keys)
	var sb strings.Builder
	for _, k := range keys {
		fmt.Fprintf(&sb, "%q=%q,", k, p[k])
	}
	return "{" + sb.String() + "}"
}
