package sim

import (
	"math/big"

	"github.com/LemoFoundationLtd/lemochain-core/common"
	"pgregory.net/rapid"
)

// EVM program grammar: straight-line blocks of arithmetic / memory / storage operations, calls of every kind to a
// given set of targets, CREATE with tiny init code, SELFDESTRUCT, LOGn, and endings STOP / RETURN / REVERT / INVALID /
// out-of-gas loop. Storage keys come from a 4-key space so that they collide.

const (
	opSTOP         = 0x00
	opADD          = 0x01
	opMUL          = 0x02
	opSUB          = 0x03
	opDIV          = 0x04
	opEXP          = 0x0a
	opLT           = 0x10
	opISZERO       = 0x15
	opSHA3         = 0x20
	opADDRESS      = 0x30
	opBALANCE      = 0x31
	opCALLER       = 0x33
	opCALLVALUE    = 0x34
	opCALLDATALOAD = 0x35
	opCALLDATASIZE = 0x36
	opCODECOPY     = 0x39
	opEXTCODESIZE  = 0x3b
	opRETURNDATASZ = 0x3d
	opBLOCKHASH    = 0x40
	opTIMESTAMP    = 0x42
	opNUMBER       = 0x43
	opPOP          = 0x50
	opMLOAD        = 0x51
	opMSTORE       = 0x52
	opSLOAD        = 0x54
	opSSTORE       = 0x55
	opJUMP         = 0x56
	opJUMPI        = 0x57
	opGAS          = 0x5a
	opJUMPDEST     = 0x5b
	opPUSH1        = 0x60
	opPUSH32       = 0x7f
	opDUP1         = 0x80
	opLOG0         = 0xa0
	opCREATE       = 0xf0
	opCALL         = 0xf1
	opCALLCODE     = 0xf2
	opRETURN       = 0xf3
	opDELEGATECALL = 0xf4
	opSTATICCALL   = 0xfa
	opREVERT       = 0xfd
	opINVALID      = 0xfe
	opSELFDESTRUCT = 0xff
)

// Asm is a tiny assembler.
type Asm struct{ B []byte }

func (a *Asm) Op(ops ...byte) *Asm { a.B = append(a.B, ops...); return a }

// Push pushes a big-endian value with the shortest PUSHn (PUSH1 0 for zero).
func (a *Asm) Push(v []byte) *Asm {
	for len(v) > 1 && v[0] == 0 {
		v = v[1:]
	}
	if len(v) == 0 {
		v = []byte{0}
	}
	if len(v) > 32 {
		v = v[len(v)-32:]
	}
	a.B = append(a.B, byte(opPUSH1+len(v)-1))
	a.B = append(a.B, v...)
	return a
}

func (a *Asm) PushInt(n uint64) *Asm { return a.Push(new(big.Int).SetUint64(n).Bytes()) }
func (a *Asm) PushAddr(addr common.Address) *Asm {
	a.B = append(a.B, byte(opPUSH1+19))
	a.B = append(a.B, addr[:]...)
	return a
}

// StorageKeys is the colliding key space.
var StorageKeys = []uint64{0, 1, 2, 0xff}

// EvmEnv describes what a generated program may refer to.
type EvmEnv struct {
	Self    common.Address
	Targets []common.Address // other contracts, precompiles, EOAs, absent addresses
	NoLoop  bool             // never emit the out-of-gas loop (used with astronomically large gas)
}

// ProgStats says which interesting shapes a program contains.
type ProgStats struct {
	Calls, Creates, Sstores, Suicides, Logs int
	Ending                                  string
}

// GenProgram draws a program. depth bounds the recursion of init code generation.
func GenProgram(t *rapid.T, env *EvmEnv, stats *ProgStats) []byte {
	a := &Asm{}
	n := rapid.IntRange(0, 7).Draw(t, "nblocks")
	for i := 0; i < n; i++ {
		genBlock(t, a, env, stats)
	}
	genEnding(t, a, env, stats)
	return a.B
}

func genBlock(t *rapid.T, a *Asm, env *EvmEnv, stats *ProgStats) {
	switch rapid.IntRange(0, 13).Draw(t, "block") {
	case 0: // arithmetic noise
		a.PushInt(uint64(rapid.IntRange(0, 300).Draw(t, "x"))).PushInt(uint64(rapid.IntRange(0, 300).Draw(t, "y")))
		a.Op(rapid.SampledFrom([]byte{opADD, opMUL, opSUB, opDIV, opEXP, opLT}).Draw(t, "arith"), opPOP)
	case 1, 2: // SSTORE
		var v []byte
		switch rapid.IntRange(0, 3).Draw(t, "sv") {
		case 0:
			v = []byte{0}
		case 1:
			v = []byte{rapid.ByteRange(1, 255).Draw(t, "svb")}
		case 2:
			v = rapid.SliceOfN(rapid.Byte(), 32, 32).Draw(t, "svw")
		default:
			a.Op(opCALLVALUE) // dynamic value
		}
		if v != nil {
			a.Push(v)
		}
		a.PushInt(StorageKeys[rapid.IntRange(0, len(StorageKeys)-1).Draw(t, "sk")]).Op(opSSTORE)
		stats.Sstores++
	case 3: // SLOAD
		a.PushInt(StorageKeys[rapid.IntRange(0, len(StorageKeys)-1).Draw(t, "lk")]).Op(opSLOAD, opPOP)
	case 4: // memory
		a.PushInt(uint64(rapid.IntRange(0, 255).Draw(t, "mv"))).PushInt(uint64(rapid.IntRange(0, 96).Draw(t, "mo"))).Op(opMSTORE)
		a.PushInt(uint64(rapid.IntRange(0, 96).Draw(t, "ml"))).Op(opMLOAD, opPOP)
	case 5: // LOGn
		ntop := rapid.IntRange(0, 4).Draw(t, "ntopics")
		for i := 0; i < ntop; i++ {
			a.PushInt(uint64(rapid.IntRange(0, 1000).Draw(t, "topic")))
		}
		a.PushInt(uint64(rapid.IntRange(0, 40).Draw(t, "logsize"))).PushInt(0).Op(byte(opLOG0 + ntop))
		stats.Logs++
	case 6, 7, 8, 9: // calls
		genCall(t, a, env, stats)
	case 10: // CREATE
		genCreate(t, a, env, stats)
	case 11: // environment reads
		a.Op(rapid.SampledFrom([]byte{opADDRESS, opCALLER, opCALLVALUE, opCALLDATASIZE, opTIMESTAMP, opNUMBER, opGAS, opRETURNDATASZ}).Draw(t, "envop"), opPOP)
		if len(env.Targets) > 0 {
			a.PushAddr(env.Targets[rapid.IntRange(0, len(env.Targets)-1).Draw(t, "baddr")]).Op(rapid.SampledFrom([]byte{opBALANCE, opEXTCODESIZE}).Draw(t, "extop"), opPOP)
		}
		a.PushInt(uint64(rapid.IntRange(0, 300).Draw(t, "bh"))).Op(opBLOCKHASH, opPOP)
	case 12: // SHA3 over memory
		a.PushInt(uint64(rapid.IntRange(0, 64).Draw(t, "shasize"))).PushInt(0).Op(opSHA3, opPOP)
	case 13: // valid forward jump over a trap
		// PUSH dest; JUMP; INVALID; JUMPDEST
		pos := len(a.B)
		a.B = append(a.B, byte(opPUSH1+1), byte((pos+5)>>8), byte(pos+5), opJUMP, opINVALID, opJUMPDEST)
	}
}

func genTarget(t *rapid.T, env *EvmEnv) common.Address {
	if len(env.Targets) == 0 || rapid.IntRange(0, 9).Draw(t, "selfcall") == 0 {
		return env.Self
	}
	return env.Targets[rapid.IntRange(0, len(env.Targets)-1).Draw(t, "target")]
}

func genCall(t *rapid.T, a *Asm, env *EvmEnv, stats *ProgStats) {
	kind := rapid.SampledFrom([]byte{opCALL, opCALL, opCALLCODE, opDELEGATECALL, opSTATICCALL}).Draw(t, "callkind")
	target := genTarget(t, env)
	// retSize retOff inSize inOff [value] addr gas
	a.PushInt(uint64(rapid.SampledFrom([]int{0, 0, 32}).Draw(t, "retsize"))).PushInt(0)
	a.PushInt(uint64(rapid.SampledFrom([]int{0, 0, 4, 36}).Draw(t, "insize"))).PushInt(0)
	if kind == opCALL || kind == opCALLCODE {
		a.PushInt(uint64(rapid.SampledFrom([]int{0, 0, 1, 7, 1000000}).Draw(t, "callvalue")))
	}
	a.PushAddr(target)
	switch rapid.IntRange(0, 3).Draw(t, "gaskind") {
	case 0:
		a.Op(opGAS) // everything (capped by the 63/64 rule)
	case 1:
		a.PushInt(uint64(rapid.SampledFrom([]int{0, 700, 2300, 30000}).Draw(t, "gasfix")))
	default:
		a.PushInt(uint64(rapid.IntRange(0, 200000).Draw(t, "gasamt")))
	}
	a.Op(kind)
	stats.Calls++
	switch rapid.IntRange(0, 3).Draw(t, "afterCall") {
	case 0: // propagate failure: if result == 0 revert
		// ISZERO; PUSH dest; JUMPI; (ok path) PUSH dest2; JUMP; JUMPDEST(fail): PUSH 0 PUSH 0 REVERT; JUMPDEST(ok)
		pos := len(a.B)
		failDest, okDest := pos+9, pos+15
		a.Op(opISZERO)
		a.B = append(a.B, byte(opPUSH1+1), byte(failDest>>8), byte(failDest), opJUMPI)
		a.B = append(a.B, byte(opPUSH1+1), byte(okDest>>8), byte(okDest), opJUMP)
		a.B = append(a.B, opJUMPDEST, opPUSH1, 0, opPUSH1, 0, opREVERT)
		a.B = append(a.B, opJUMPDEST)
	default:
		a.Op(opPOP)
	}
}

// tiny init codes: each at most 32 bytes so that it fits one memory word
var initCodes = [][]byte{
	{}, // empty init: empty contract
	{0x61, 0x33, 0xff, 0x60, 0x00, 0x52, 0x60, 0x02, 0x60, 0x1e, 0xf3}, // runtime = 33 ff (selfdestruct(caller) on every call): a contract that dies when called and may be paid again afterwards
	{0x60, 0x2a, 0x60, 0x00, 0x55, 0x00},                               // sstore(0, 42); stop
	{0x60, 0x2a, 0x60, 0x01, 0x55, 0x60, 0x00, 0x60, 0x00, 0xfd},       // sstore; revert
	{0x60, 0x01, 0x60, 0x00, 0x55, 0xfe},                               // sstore; invalid
	{0x60, 0xff, 0x60, 0x00, 0x53, 0x60, 0x01, 0x60, 0x00, 0xf3},       // runtime = ff (selfdestruct to stack garbage): mstore8(0,0xff); return(0,1)
	{0x60, 0x00, 0x60, 0x00, 0x53, 0x60, 0x01, 0x60, 0x00, 0xf3},       // runtime = 00 (stop)
	{0x33, 0xff},                         // selfdestruct(caller) during construction
	{0x60, 0x01, 0x60, 0x02, 0xa1, 0x00}, // log1; stop  (size 2 offset 1? harmless)
	{0x61, 0x60, 0x01, 0x60, 0x00, 0x52, 0x61, 0x70, 0x00, 0x60, 0x00, 0xf3}, // return 0x7000 bytes: > MaxCodeSize (24576)
	{0x60, 0x2a, 0x60, 0x02, 0x55, 0x61, 0x60, 0x01, 0x60, 0x00, 0xf3},       // sstore(2,42); return 0x6001 bytes = 24577: exactly one over the limit
	{0x60, 0x2a, 0x60, 0x02, 0x55, 0x61, 0x60, 0x00, 0x60, 0x00, 0xf3},       // sstore(2,42); return 0x6000 bytes = 24576: exactly the limit
	{0x5b, 0x60, 0x00, 0x56}, // loop: out of gas
	{0x60, 0x00, 0x60, 0x00, 0x60, 0x00, 0x60, 0x00, 0x60, 0x00, 0x30, 0x5a, 0xf1, 0x00}, // call(self) from constructor
}

func genCreate(t *rapid.T, a *Asm, env *EvmEnv, stats *ProgStats) {
	var ic []byte
	if env.NoLoop {
		ic = initCodes[rapid.IntRange(0, len(initCodes)-3).Draw(t, "initcode")]
	} else {
		ic = initCodes[rapid.IntRange(0, len(initCodes)-1).Draw(t, "initcode")]
	}
	word := make([]byte, 32)
	copy(word[32-len(ic):], ic)
	if len(ic) > 0 {
		a.B = append(a.B, opPUSH32)
		a.B = append(a.B, word...)
		a.PushInt(0).Op(opMSTORE)
	}
	a.PushInt(uint64(len(ic))).PushInt(uint64(32 - len(ic)))
	a.PushInt(uint64(rapid.SampledFrom([]int{0, 0, 1, 5}).Draw(t, "endowment"))).Op(opCREATE, opPOP)
	stats.Creates++
}

func genEnding(t *rapid.T, a *Asm, env *EvmEnv, stats *ProgStats) {
	max := 7
	if env.NoLoop {
		max = 6
	}
	switch rapid.IntRange(0, max).Draw(t, "ending") {
	case 0, 1:
		a.Op(opSTOP)
		stats.Ending = "stop"
	case 2:
		a.PushInt(uint64(rapid.IntRange(0, 64).Draw(t, "retlen"))).PushInt(0).Op(opRETURN)
		stats.Ending = "return"
	case 3:
		a.PushInt(uint64(rapid.IntRange(0, 32).Draw(t, "revlen"))).PushInt(0).Op(opREVERT)
		stats.Ending = "revert"
	case 4:
		a.Op(opINVALID)
		stats.Ending = "invalid"
	case 5:
		if rapid.Bool().Draw(t, "toSelf") {
			a.Op(opADDRESS)
		} else {
			a.PushAddr(genTarget(t, env))
		}
		a.Op(opSELFDESTRUCT)
		stats.Suicides++
		stats.Ending = "selfdestruct"
	case 6: // stack underflow
		a.Op(opPOP)
		stats.Ending = "underflow"
	default:
		a.Op(opJUMPDEST).PushInt(uint64(len(a.B) - 1)).Op(opJUMP)
		stats.Ending = "oog-loop"
	}
}

// RecursiveProgram calls itself with all gas until the depth limit stops it, then writes and returns.
func RecursiveProgram(self common.Address) []byte {
	a := &Asm{}
	a.PushInt(0).PushInt(0).PushInt(0).PushInt(0).PushInt(0).PushAddr(self).Op(opGAS, opCALL, opPOP)
	a.PushInt(1).PushInt(0).Op(opSSTORE, opSTOP)
	return a.B
}
