package sim

import (
	"crypto/sha256"
	"encoding/hex"
	"encoding/json"
	"os"
	"strconv"
	"sync"
)

// The evidence channel: every evaluated case appends one JSON line to $VERIF_STATS. The driver aggregates.

type statLine struct {
	Kind       string      `json:"k"`           // "case", "known", "excluded", "note"
	Unit       string      `json:"u,omitempty"` // test unit
	Hash       string      `json:"h,omitempty"`
	Nontrivial bool        `json:"n,omitempty"`
	Classes    []string    `json:"c,omitempty"`
	Sample     interface{} `json:"s,omitempty"`
	ID         string      `json:"id,omitempty"`
	Detail     string      `json:"d,omitempty"`
	Count      int         `json:"cnt,omitempty"`
}

var (
	statMu      sync.Mutex
	statFile    *os.File
	statOpened  bool
	sampleCount = map[string]int{}
	caseCount   = map[string]int{}
)

func statWrite(l statLine) {
	statMu.Lock()
	defer statMu.Unlock()
	if !statOpened {
		statOpened = true
		if p := os.Getenv("VERIF_STATS"); p != "" {
			f, err := os.OpenFile(p, os.O_CREATE|os.O_APPEND|os.O_WRONLY, 0644)
			if err == nil {
				statFile = f
			}
		}
	}
	if statFile == nil {
		return
	}
	buf, err := json.Marshal(l)
	if err != nil {
		return
	}
	statFile.Write(append(buf, '\n'))
}

// HashOf gives a short stable digest of a case description.
func HashOf(parts ...interface{}) string {
	buf, _ := json.Marshal(parts)
	sum := sha256.Sum256(buf)
	return hex.EncodeToString(sum[:8])
}

// Case records one evaluated case: a digest that identifies it, whether it is non-trivial by the unit's stated
// rule, its classes, and (lazily, for a few cases only) a written-out sample.
func Case(unit string, hash string, nontrivial bool, classes []string, sample func() interface{}) {
	statMu.Lock()
	caseCount[unit]++
	cnt := caseCount[unit]
	want := false
	if sample != nil && nontrivial && (sampleCount[unit] < 3 || cnt%1000 == 0) && sampleCount[unit] < 8 {
		sampleCount[unit]++
		want = true
	}
	statMu.Unlock()
	l := statLine{Kind: "case", Unit: unit, Hash: hash, Nontrivial: nontrivial, Classes: classes}
	if want {
		l.Sample = sample()
	}
	statWrite(l)
}

// Bulk records many evaluated cases of an enumeration at once (count evaluations, `distinct` of them distinct and non-trivial).
func Bulk(unit string, evaluations, distinctNontrivial int, classes map[string]int, samples []interface{}, exhaustive bool) {
	statWrite(statLine{Kind: "bulk", Unit: unit, Count: evaluations, Detail: strconv.Itoa(distinctNontrivial), Sample: map[string]interface{}{"classes": classes, "samples": samples, "exhaustive": exhaustive}})
}

// KnownHit records that the matcher of a listed known finding explained a mismatch.
func KnownHit(unit, findingID, detail string) {
	statWrite(statLine{Kind: "known", Unit: unit, ID: findingID, Detail: detail})
}

// Excluded records a generated shape that was excluded by construction (because a known finding would abort the case).
func Excluded(unit, what string) {
	statWrite(statLine{Kind: "excluded", Unit: unit, ID: what})
}

// Note records free text for the evidence file.
func Note(unit, text string) {
	statWrite(statLine{Kind: "note", Unit: unit, Detail: text})
}

// Tier returns "quick" or "thorough".
func Tier() string {
	if os.Getenv("VERIF_TIER") == "thorough" {
		return "thorough"
	}
	return "quick"
}

// Seed returns VERIF_SEED (default 1, 0 remapped to 1).
func Seed() int64 {
	v, err := strconv.ParseInt(os.Getenv("VERIF_SEED"), 10, 64)
	if err != nil || v == 0 {
		return 1
	}
	return v
}

// Shard returns (index, count) of this process within its unit.
func Shard() (int, int) {
	i, _ := strconv.Atoi(os.Getenv("VERIF_SHARD"))
	n, _ := strconv.Atoi(os.Getenv("VERIF_SHARDS"))
	if n <= 0 {
		n = 1
	}
	return i, n
}
