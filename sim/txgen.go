package sim

import (
	"crypto/ecdsa"
	"fmt"
	"math/big"

	"github.com/LemoFoundationLtd/lemochain-core/chain/account"
	"github.com/LemoFoundationLtd/lemochain-core/chain/params"
	"github.com/LemoFoundationLtd/lemochain-core/chain/types"
	"github.com/LemoFoundationLtd/lemochain-core/common"
	"pgregory.net/rapid"
)

// GenTx is a generated transaction with what the generator knows about it.
type GenTx struct {
	Tx    *types.Transaction
	Kind  string // grammar rule
	Decoy string // non-empty: built so that an honest miner must discard it (reason)
	Note  string
}

// Weights selects the transaction mix of a scenario.
type Weights struct {
	Transfer, Contract, Vote, Candidate, Asset, Multisig, Box, GasPayer, Decoy, Reward int
}

var DefaultWeights = Weights{Transfer: 5, Contract: 5, Vote: 2, Candidate: 2, Asset: 0, Multisig: 0, Box: 2, GasPayer: 1, Decoy: 2}

// AssetInfo is what the generator remembers about a created asset.
type AssetInfo struct {
	Code     common.Hash
	Issuer   *Actor
	Category uint32
	Ids      []common.Hash            // issued ids (for category 1: the code itself)
	Holders  map[common.Hash][]*Actor // asset id -> actors an issue was addressed to (they can transfer it on)
}

// TxGen draws transactions over a world, looking at the chain state where that makes the draw more interesting.
type TxGen struct {
	W           *World
	Weights     Weights
	Contracts   []common.Address // addresses contracts were (or would have been) deployed to
	Candidates  []*Actor         // users who sent a register transaction
	Assets      []*AssetInfo
	Multisig    map[common.Address][]SignerSpec // accounts known to be multi-signature
	nonce       int
	NoBoundary  bool // do not aim amounts at the 200 LEMO vote boundary
	DeputiesAct bool // the deputies' miner and income accounts are funded and send transactions too (they vote, receive rewards)
}

func NewTxGen(w *World, weights Weights) *TxGen {
	return &TxGen{W: w, Weights: weights, Multisig: map[common.Address][]SignerSpec{}}
}

// Nonce returns a fresh message text that makes a transaction unique.
func (g *TxGen) Nonce() string { return g.next() }

func (g *TxGen) next() string {
	g.nonce++
	return fmt.Sprintf("n%d", g.nonce)
}

// payers: actors that hold money (founder, users).
func (g *TxGen) actors() []*Actor {
	res := append([]*Actor{g.W.Founder}, g.W.Users...)
	if g.DeputiesAct {
		for _, d := range g.W.Deputies {
			res = append(res, d.Miner, d.Income)
		}
	}
	return res
}

func (g *TxGen) anyActor(t *rapid.T, label string) *Actor {
	as := g.actors()
	return as[rapid.IntRange(0, len(as)-1).Draw(t, label)]
}

func (g *TxGen) anyAddress(t *rapid.T, label string) common.Address {
	switch rapid.IntRange(0, 9).Draw(t, label+"Kind") {
	case 0:
		if len(g.Contracts) > 0 {
			return g.Contracts[rapid.IntRange(0, len(g.Contracts)-1).Draw(t, label+"Contract")]
		}
	case 1:
		return common.BytesToAddress([]byte{0x01, 0xfe, byte(rapid.IntRange(0, 3).Draw(t, label+"Fresh"))}) // fresh accounts
	case 2:
		return rapid.SampledFrom([]common.Address{{}, params.DepositPoolAddress, params.TermRewardContract, common.BytesToAddress([]byte{4})}).Draw(t, label+"Special")
	case 3:
		d := g.W.Deputies[rapid.IntRange(0, len(g.W.Deputies)-1).Draw(t, label+"Deputy")]
		return rapid.SampledFrom([]common.Address{d.Miner.Addr, d.Income.Addr}).Draw(t, label+"DeputyAddr")
	}
	return g.anyActor(t, label+"Actor").Addr
}

// amount draws a transfer amount relative to the sender's balance; vote boundaries (multiples of 200 LEMO) are favoured.
func (g *TxGen) amount(t *rapid.T, balance *big.Int) *big.Int {
	switch rapid.IntRange(0, 7).Draw(t, "amountKind") {
	case 0:
		return new(big.Int)
	case 1:
		return big.NewInt(int64(rapid.IntRange(1, 1000).Draw(t, "tiny")))
	case 2:
		return Lemo(int64(rapid.IntRange(1, 50).Draw(t, "lemo")))
	case 3: // around a vote boundary
		if g.NoBoundary {
			return Lemo(int64(rapid.IntRange(1, 900).Draw(t, "lemo2")))
		}
		return new(big.Int).Add(Lemo(int64(200*rapid.IntRange(1, 4).Draw(t, "k200"))), big.NewInt(int64(rapid.IntRange(-1, 1).Draw(t, "eps"))))
	case 4: // a fraction of the balance
		d := int64(rapid.IntRange(2, 1000).Draw(t, "fraction"))
		return new(big.Int).Div(balance, big.NewInt(d))
	case 5: // bring the sender down to just around a boundary (the fee decides the side)
		if balance.Cmp(Lemo(201)) > 0 && !g.NoBoundary {
			target := Lemo(int64(200 * rapid.IntRange(0, 2).Draw(t, "remain200")))
			v := new(big.Int).Sub(balance, target)
			v.Sub(v, big.NewInt(int64(rapid.SampledFrom([]int{0, 21000000000000, 42000000000000}).Draw(t, "feeGuess"))))
			if v.Sign() > 0 {
				return v
			}
		}
		return Lemo(3)
	default:
		return Lemo(int64(rapid.IntRange(100, 1200).Draw(t, "hundreds")))
	}
}

// Draw produces one generated transaction. view is the account state at the parent block (for balances), blockTime the
// timestamp the block will carry.
func (g *TxGen) Draw(t *rapid.T, view *account.Manager, blockTime uint32) *GenTx {
	w := g.Weights
	total := w.Transfer + w.Contract + w.Vote + w.Candidate + w.Asset + w.Multisig + w.Box + w.GasPayer + w.Decoy + w.Reward
	x := rapid.IntRange(0, total-1).Draw(t, "rule")
	exp := uint64(blockTime) + uint64(rapid.SampledFrom([]int{0, 1, 600, 1799, 1800}).Draw(t, "expOffset"))
	pick := func(n int) bool {
		if x < n {
			return true
		}
		x -= n
		return false
	}
	switch {
	case pick(w.Transfer):
		return g.transfer(t, view, exp)
	case pick(w.Contract):
		return g.contract(t, view, exp)
	case pick(w.Vote):
		return g.vote(t, exp)
	case pick(w.Candidate):
		return g.candidate(t, view, exp)
	case pick(w.Asset):
		return g.asset(t, view, exp)
	case pick(w.Multisig):
		return g.multisig(t, view, exp)
	case pick(w.Box):
		return g.box(t, view, blockTime, exp)
	case pick(w.GasPayer):
		return g.gasPayer(t, view, exp)
	case pick(w.Reward):
		return g.reward(t, exp)
	default:
		return g.decoy(t, view, blockTime)
	}
}

func (g *TxGen) keysFor(a *Actor) []*ecdsa.PrivateKey {
	if specs, ok := g.Multisig[a.Addr]; ok {
		var ks []*ecdsa.PrivateKey
		for _, s := range specs {
			ks = append(ks, s.Actor.Key)
		}
		return ks
	}
	return []*ecdsa.PrivateKey{a.Key}
}

func (g *TxGen) transfer(t *rapid.T, view *account.Manager, exp uint64) *GenTx {
	from := g.anyActor(t, "from")
	to := g.anyAddress(t, "to")
	if rapid.IntRange(0, 9).Draw(t, "toSelf") == 0 {
		to = from.Addr
	}
	amt := g.amount(t, view.GetAccount(from.Addr).GetBalance())
	msg := ""
	if rapid.IntRange(0, 4).Draw(t, "withMsg") == 0 {
		msg = g.next()
	}
	tx := Sign(TxSpec{Type: params.OrdinaryTx, From: from.Addr, To: &to, Amount: amt, GasLimit: uint64(rapid.SampledFrom([]int{21000, 30000, 100000}).Draw(t, "gasLimit")), Exp: exp, Message: msg}.Build(), g.keysFor(from)...)
	return &GenTx{Tx: tx, Kind: "transfer", Note: fmt.Sprintf("%s -> %s %v", from.Name, to.Hex()[34:], amt)}
}

func (g *TxGen) contract(t *rapid.T, view *account.Manager, exp uint64) *GenTx {
	from := g.anyActor(t, "from")
	if len(g.Contracts) == 0 || rapid.IntRange(0, 2).Draw(t, "createOrCall") == 0 {
		env := &EvmEnv{Targets: append(append([]common.Address{}, g.Contracts...), g.W.Users[0].Addr, common.BytesToAddress([]byte{4}), common.BytesToAddress([]byte{9}))}
		var stats ProgStats
		var init []byte
		switch rapid.IntRange(0, 3).Draw(t, "initKind") {
		case 0:
			init = GenProgram(t, env, &stats)
		case 1:
			init = append([]byte{}, initCodes[rapid.IntRange(0, len(initCodes)-1).Draw(t, "tinyInit")]...)
		default:
			init = DeployCode(GenProgram(t, env, &stats))
		}
		if len(init) == 0 {
			init = []byte{0x00}
		}
		gas := uint64(rapid.SampledFrom([]int{60000, 200000, 1000000, 6000000}).Draw(t, "createGas"))
		tx := CreateContract(from, big.NewInt(int64(rapid.SampledFrom([]int{0, 0, 5, 1000}).Draw(t, "endow"))), init, gas, exp)
		g.Contracts = append(g.Contracts, ContractAddr(tx))
		return &GenTx{Tx: tx, Kind: "create", Note: fmt.Sprintf("%s creates %s init=%x", from.Name, ContractAddr(tx).Hex()[34:], init)}
	}
	to := g.Contracts[rapid.IntRange(0, len(g.Contracts)-1).Draw(t, "callee")]
	gas := uint64(rapid.SampledFrom([]int{21000, 30000, 100000, 1000000}).Draw(t, "callGas"))
	val := big.NewInt(int64(rapid.SampledFrom([]int{0, 0, 1, 10, 100000}).Draw(t, "callValue")))
	data := rapid.SliceOfN(rapid.Byte(), 0, 36).Draw(t, "callData")
	tx := CallContract(from, to, val, data, gas, exp)
	return &GenTx{Tx: tx, Kind: "call", Note: fmt.Sprintf("%s calls %s value %v gas %d", from.Name, to.Hex()[34:], val, gas)}
}

func (g *TxGen) candidateAddrs() []common.Address {
	var res []common.Address
	for _, d := range g.W.Deputies {
		res = append(res, d.Miner.Addr)
	}
	for _, c := range g.Candidates {
		res = append(res, c.Addr)
	}
	return res
}

func (g *TxGen) vote(t *rapid.T, exp uint64) *GenTx {
	from := g.anyActor(t, "voter")
	var to common.Address
	if rapid.IntRange(0, 9).Draw(t, "voteNonCandidate") == 0 {
		to = g.W.Users[0].Addr // usually not a candidate: the transaction fails and is discarded
	} else {
		cs := g.candidateAddrs()
		to = cs[rapid.IntRange(0, len(cs)-1).Draw(t, "candidate")]
	}
	tx := Sign(TxSpec{Type: params.VoteTx, From: from.Addr, To: &to, GasLimit: 100000, Exp: exp, Message: g.next()}.Build(), g.keysFor(from)...)
	return &GenTx{Tx: tx, Kind: "vote", Note: fmt.Sprintf("%s votes %s", from.Name, to.Hex()[34:])}
}

func (g *TxGen) candidate(t *rapid.T, view *account.Manager, exp uint64) *GenTx {
	from := g.W.Users[rapid.IntRange(0, len(g.W.Users)-1).Draw(t, "candidateUser")]
	registered := false
	for _, c := range g.Candidates {
		if c == from {
			registered = true
		}
	}
	if !registered {
		dep := new(big.Int).Set(params.MinCandidateDeposit)
		switch rapid.IntRange(0, 4).Draw(t, "depositKind") {
		case 0:
			dep.Sub(dep, big.NewInt(1)) // too small: fails
		case 1:
			dep.Add(dep, Lemo(int64(rapid.IntRange(1, 250).Draw(t, "extraDeposit"))))
		}
		g.Candidates = append(g.Candidates, from)
		tx := Sign(TxSpec{Type: params.RegisterTx, From: from.Addr, Amount: dep, GasLimit: 300000, Data: CandidateProfile(from, true, nil), Exp: exp, Message: g.next()}.Build(), g.keysFor(from)...)
		return &GenTx{Tx: tx, Kind: "register", Note: fmt.Sprintf("%s registers with %v", from.Name, dep)}
	}
	switch rapid.IntRange(0, 3).Draw(t, "candidateOp") {
	case 0: // unregister
		tx := Sign(TxSpec{Type: params.RegisterTx, From: from.Addr, GasLimit: 300000, Data: CandidateProfile(from, false, nil), Exp: exp, Message: g.next()}.Build(), g.keysFor(from)...)
		return &GenTx{Tx: tx, Kind: "unregister", Note: from.Name + " unregisters"}
	case 1: // top up
		amt := Lemo(int64(rapid.SampledFrom([]int{1, 99, 100, 101, 250}).Draw(t, "topup")))
		tx := Sign(TxSpec{Type: params.RegisterTx, From: from.Addr, Amount: amt, GasLimit: 300000, Data: CandidateProfile(from, true, nil), Exp: exp, Message: g.next()}.Build(), g.keysFor(from)...)
		return &GenTx{Tx: tx, Kind: "topup", Note: fmt.Sprintf("%s tops up %v", from.Name, amt)}
	default: // modify
		tx := Sign(TxSpec{Type: params.RegisterTx, From: from.Addr, GasLimit: 300000, Data: CandidateProfile(from, true, map[string]string{"host": "10.0.0." + fmt.Sprint(rapid.IntRange(1, 9).Draw(t, "host"))}), Exp: exp, Message: g.next()}.Build(), g.keysFor(from)...)
		return &GenTx{Tx: tx, Kind: "modify-candidate", Note: from.Name + " modifies profile"}
	}
}

var assetAmounts = []string{"0", "1", "7", "100", "1000", "-1", "-50", "57896044618658097711785492504343953926634992332820282019728792003956564819968"}

func (g *TxGen) asset(t *rapid.T, view *account.Manager, exp uint64) *GenTx {
	if len(g.Assets) == 0 || rapid.IntRange(0, 7).Draw(t, "newAsset") == 0 {
		from := g.anyActor(t, "issuer")
		cat := uint32(rapid.IntRange(1, 3).Draw(t, "category"))
		tx := CreateAsset(from, cat, rapid.Bool().Draw(t, "replenishable"), exp, g.next())
		g.Assets = append(g.Assets, &AssetInfo{Code: tx.Hash(), Issuer: from, Category: cat})
		return &GenTx{Tx: tx, Kind: "create-asset", Note: fmt.Sprintf("%s creates asset cat %d", from.Name, cat)}
	}
	a := g.Assets[rapid.IntRange(0, len(g.Assets)-1).Draw(t, "asset")]
	amount := rapid.SampledFrom(assetAmounts).Draw(t, "assetAmount")
	switch rapid.IntRange(0, 7).Draw(t, "assetOp") {
	case 0, 1: // issue
		from := a.Issuer
		if rapid.IntRange(0, 9).Draw(t, "foreignIssuer") == 0 {
			from = g.anyActor(t, "notIssuer")
		}
		to := g.anyAddress(t, "holder")
		if rapid.IntRange(0, 2).Draw(t, "issueToActor") != 0 {
			to = g.anyActor(t, "holderActor").Addr
		}
		if rapid.IntRange(0, 2).Draw(t, "saneIssue") != 0 {
			amount = rapid.SampledFrom([]string{"7", "100", "1000"}).Draw(t, "saneAmount")
		}
		tx := IssueAsset(from, to, a.Code, amount, exp, g.next())
		if from == a.Issuer {
			id := tx.Hash()
			if a.Category == types.TokenAsset {
				id = a.Code
			}
			a.Ids = addUnique(a.Ids, id)
			if actor := g.W.ActorByAddr(to); actor != nil {
				if a.Holders == nil {
					a.Holders = map[common.Hash][]*Actor{}
				}
				a.Holders[id] = append(a.Holders[id], actor)
			}
		}
		return &GenTx{Tx: tx, Kind: "issue-asset", Note: fmt.Sprintf("%s issues %s of %s to %s", from.Name, amount, a.Code.Hex()[58:], to.Hex()[34:])}
	case 2: // replenish
		from := a.Issuer
		if rapid.IntRange(0, 9).Draw(t, "foreignIssuer") == 0 {
			from = g.anyActor(t, "notIssuer")
		}
		id := a.Code
		if len(a.Ids) > 0 {
			id = a.Ids[rapid.IntRange(0, len(a.Ids)-1).Draw(t, "assetId")]
		}
		to := g.anyAddress(t, "holder")
		tx := ReplenishAsset(from, to, a.Code, id, amount, exp, g.next())
		return &GenTx{Tx: tx, Kind: "replenish-asset", Note: fmt.Sprintf("%s replenishes %s of %s to %s", from.Name, amount, id.Hex()[58:], to.Hex()[34:])}
	case 3: // modify (freeze / unfreeze / other key)
		from := a.Issuer
		if rapid.IntRange(0, 9).Draw(t, "foreignIssuer") == 0 {
			from = g.anyActor(t, "notIssuer")
		}
		prof := map[string]string{rapid.SampledFrom([]string{"freeze", "freeze", "name", "newkey"}).Draw(t, "profKey"): rapid.SampledFrom([]string{"true", "false", "x"}).Draw(t, "profVal")}
		tx := ModifyAsset(from, a.Code, prof, exp, g.next())
		return &GenTx{Tx: tx, Kind: "modify-asset", Note: fmt.Sprintf("%s modifies %s %v", from.Name, a.Code.Hex()[58:], prof)}
	default: // transfer
		from := g.anyActor(t, "assetSender")
		id := a.Code
		if len(a.Ids) > 0 {
			id = a.Ids[rapid.IntRange(0, len(a.Ids)-1).Draw(t, "assetId")]
		}
		if hs := a.Holders[id]; len(hs) > 0 && rapid.IntRange(0, 4).Draw(t, "fromHolder") != 0 {
			from = hs[rapid.IntRange(0, len(hs)-1).Draw(t, "holderIdx")]
		}
		if rapid.IntRange(0, 1).Draw(t, "saneTransfer") != 0 {
			amount = rapid.SampledFrom([]string{"1", "7", "100"}).Draw(t, "saneAmount")
		}
		to := g.anyAddress(t, "assetTo")
		if rapid.IntRange(0, 9).Draw(t, "toSelf") == 0 {
			to = from.Addr
		}
		tx := TransferAsset(from, to, id, amount, exp, g.next())
		return &GenTx{Tx: tx, Kind: "transfer-asset", Note: fmt.Sprintf("%s sends %s of %s to %s", from.Name, amount, id.Hex()[58:], to.Hex()[34:])}
	}
}

func (g *TxGen) multisig(t *rapid.T, view *account.Manager, exp uint64) *GenTx {
	from := g.W.Users[rapid.IntRange(0, len(g.W.Users)-1).Draw(t, "msUser")]
	n := rapid.IntRange(2, 3).Draw(t, "nsigners")
	var specs []SignerSpec
	for i := 0; i < n; i++ {
		specs = append(specs, SignerSpec{Actor: g.W.Users[(i+1)%len(g.W.Users)], Weight: uint8(rapid.SampledFrom([]int{34, 50, 60, 100}).Draw(t, "weight"))})
	}
	tx := ModifySigners(from, specs, exp, g.keysFor(from)...)
	return &GenTx{Tx: tx, Kind: "modify-signers", Note: fmt.Sprintf("%s becomes multisig %d signers", from.Name, n)}
}

func (g *TxGen) box(t *rapid.T, view *account.Manager, blockTime uint32, exp uint64) *GenTx {
	from := g.anyActor(t, "boxer")
	n := rapid.IntRange(1, 4).Draw(t, "nsub")
	var subs types.Transactions
	var notes []string
	inner := *g
	inner.Weights.Box, inner.Weights.Decoy = 0, 0
	failing := false
	for i := 0; i < n; i++ {
		var s *GenTx
		if rapid.IntRange(0, 5).Draw(t, "failingSub") == 0 {
			s = inner.decoy(t, view, blockTime)
			failing = true
		} else {
			s = inner.Draw(t, view, blockTime)
		}
		// a valid box expires no later than its sub transactions
		if s.Tx.Expiration() < exp {
			exp = s.Tx.Expiration()
		}
		subs = append(subs, s.Tx)
		notes = append(notes, s.Kind+":"+s.Note)
	}
	g.Contracts, g.Candidates, g.Assets, g.nonce = inner.Contracts, inner.Candidates, inner.Assets, inner.nonce
	tx := Box(from, subs, uint64(rapid.SampledFrom([]int{60000, 200000}).Draw(t, "boxGas")), exp)
	gt := &GenTx{Tx: tx, Kind: "box", Note: fmt.Sprintf("%s boxes %v", from.Name, notes)}
	if failing {
		gt.Decoy = "box with a failing sub transaction"
	}
	return gt
}

func (g *TxGen) gasPayer(t *rapid.T, view *account.Manager, exp uint64) *GenTx {
	from := g.anyActor(t, "from")
	payer := g.anyActor(t, "payer")
	to := g.anyAddress(t, "to")
	amt := g.amount(t, view.GetAccount(from.Addr).GetBalance())
	tx := TxSpec{Type: params.OrdinaryTx, From: from.Addr, To: &to, Amount: amt, Exp: exp, GasPayer: &payer.Addr, Message: g.next()}.Build()
	tx = SignReimbursed(tx, g.keysFor(from), GasPrice, 50000, g.keysFor(payer))
	return &GenTx{Tx: tx, Kind: "gas-payer", Note: fmt.Sprintf("%s -> %s %v paid by %s", from.Name, to.Hex()[34:], amt, payer.Name)}
}

// reward: the founder sets the term reward through the precompiled contract 0x09.
func (g *TxGen) reward(t *rapid.T, exp uint64) *GenTx {
	term := rapid.IntRange(0, 2).Draw(t, "rewardTerm")
	val := Lemo(int64(rapid.SampledFrom([]int{0, 1, 7, 450, 1000, 999999}).Draw(t, "rewardValue")))
	val.Add(val, big.NewInt(int64(rapid.IntRange(0, 5).Draw(t, "rewardDust"))))
	to := params.TermRewardContract
	data := []byte(fmt.Sprintf(`{"term":"%d","value":"%s"}`, term, val))
	tx := Sign(TxSpec{Type: params.OrdinaryTx, From: g.W.Founder.Addr, To: &to, GasLimit: 500000, Data: data, Exp: exp, Message: g.next()}.Build(), g.W.Founder.Key)
	return &GenTx{Tx: tx, Kind: "set-reward", Note: fmt.Sprintf("term %d value %v", term, val)}
}

// decoy builds a transaction an honest miner must discard.
func (g *TxGen) decoy(t *rapid.T, view *account.Manager, blockTime uint32) *GenTx {
	from := g.anyActor(t, "from")
	to := g.anyAddress(t, "to")
	exp := uint64(blockTime) + 600
	switch rapid.IntRange(0, 5).Draw(t, "decoyKind") {
	case 0: // signed by a foreign key
		other := NewActor("stranger")
		tx := Sign(TxSpec{Type: params.OrdinaryTx, From: from.Addr, To: &to, Amount: Lemo(1), GasLimit: 30000, Exp: exp, Message: g.next()}.Build(), other.Key)
		return &GenTx{Tx: tx, Kind: "transfer", Decoy: "foreign signature", Note: from.Name + " forged"}
	case 1: // more than the sender owns
		bal := view.GetAccount(from.Addr).GetBalance()
		amt := new(big.Int).Add(bal, big.NewInt(1))
		tx := Sign(TxSpec{Type: params.OrdinaryTx, From: from.Addr, To: &to, Amount: amt, GasLimit: 30000, Exp: exp, Message: g.next()}.Build(), g.keysFor(from)...)
		return &GenTx{Tx: tx, Kind: "transfer", Decoy: "amount exceeds balance", Note: from.Name + " overspends"}
	case 2: // cannot pay for the gas
		poor := NewActor("pauper")
		tx := Sign(TxSpec{Type: params.OrdinaryTx, From: poor.Addr, To: &to, GasLimit: 30000, Exp: exp, Message: g.next()}.Build(), poor.Key)
		return &GenTx{Tx: tx, Kind: "transfer", Decoy: "no balance for gas", Note: "pauper"}
	case 3: // intrinsic gas not covered
		tx := Sign(TxSpec{Type: params.OrdinaryTx, From: from.Addr, To: &to, Amount: Lemo(1), GasLimit: 20999, Exp: exp, Message: g.next()}.Build(), g.keysFor(from)...)
		return &GenTx{Tx: tx, Kind: "transfer", Decoy: "gas limit below intrinsic gas", Note: from.Name + " 20999 gas"}
	case 4: // no signature at all
		tx := TxSpec{Type: params.OrdinaryTx, From: from.Addr, To: &to, Amount: Lemo(1), GasLimit: 30000, Exp: exp, Message: g.next()}.Build()
		return &GenTx{Tx: tx, Kind: "transfer", Decoy: "unsigned", Note: from.Name + " unsigned"}
	default: // vote for somebody who is not a candidate
		nobody := common.BytesToAddress([]byte{0x01, 0xee})
		tx := Sign(TxSpec{Type: params.VoteTx, From: from.Addr, To: &nobody, GasLimit: 100000, Exp: exp, Message: g.next()}.Build(), g.keysFor(from)...)
		return &GenTx{Tx: tx, Kind: "vote", Decoy: "vote for a non-candidate", Note: from.Name + " votes nobody"}
	}
}
