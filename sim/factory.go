package sim

import (
	"fmt"

	"github.com/LemoFoundationLtd/lemochain-core/chain/deputynode"
	"github.com/LemoFoundationLtd/lemochain-core/chain/types"
	"github.com/LemoFoundationLtd/lemochain-core/common"
	"github.com/LemoFoundationLtd/lemochain-core/common/crypto"
)

// SlotSeconds is the slot length in whole seconds.
const SlotSeconds = uint32(MineTimeoutMs / 1000)

// ModelInTurn is the reference slot model written from the statement of the schedule property:
// entitlement rotates through the deputies by rank in fixed-length slots starting after the parent's
// miner (from rank 0 at height 1 and at the first block of a term). parentRank < 0 means "start from rank 0".
// elapsedMs is the time since the parent's timestamp. Returns the rank in turn.
func ModelInTurn(parentRank int, n int, elapsedMs int64, slotMs int64) int {
	if n <= 0 || elapsedMs < 0 {
		return -1
	}
	slot := (elapsedMs / slotMs) % int64(n)
	if parentRank < 0 {
		return int(slot)
	}
	return int((int64(parentRank) + 1 + slot) % int64(n))
}

// RankOf returns the rank of the deputy with this miner address at height h according to the node's term table, or -1.
func (n *Node) RankOf(h uint32, miner common.Address) int {
	for i, d := range n.DM.GetDeputiesByHeight(h, true) {
		if d.MinerAddress == miner {
			return i
		}
	}
	return -1
}

// TimeFor returns a timestamp (seconds) at which deputy rank `rank` is in turn on top of parent:
// its first slot after `loops` whole rounds, plus off seconds into the slot (off < SlotSeconds).
func (n *Node) TimeFor(parent *types.Block, rank int, loops int, off uint32) uint32 {
	h := parent.Height() + 1
	cnt := n.DM.GetDeputiesCount(h)
	if cnt == 0 {
		panic("no deputies")
	}
	parentRank := -1
	if !(h == 1 || deputynode.IsRewardBlock(h)) {
		parentRank = n.RankOf(h, parent.MinerAddress())
	}
	var slot int
	if parentRank < 0 {
		slot = rank
	} else {
		slot = ((rank-parentRank-1)%cnt + cnt) % cnt
	}
	return parent.Time() + uint32(loops*cnt+slot)*SlotSeconds + off%SlotSeconds
}

// Header builds the header an honest miner would build for this parent, time and miner (PrepareHeader minus the wall clock).
func Header(parent *types.Block, miner common.Address, time uint32, extra string) *types.Header {
	return &types.Header{
		ParentHash:   parent.Hash(),
		MinerAddress: miner,
		Height:       parent.Height() + 1,
		GasLimit:     calcGasLimit(parent.Header),
		Time:         time,
		Extra:        extra,
	}
}

// calcGasLimit mirrors the miner strategy (it is not consensus; any value is accepted by validators).
func calcGasLimit(p *types.Header) uint64 {
	const divisor, minLimit, target = 1024, 200000, 105000000
	contrib := (p.GasUsed + p.GasUsed/2) / divisor
	decay := p.GasLimit/divisor - 1
	limit := p.GasLimit - decay + contrib
	if limit < minLimit {
		limit = minLimit
	}
	if limit < target {
		limit = p.GasLimit + decay
		if limit > target {
			limit = target
		}
	}
	return limit
}

// Assemble runs the miner path (ApplyTxs with per-tx snapshot/revert, Finalize, Seal, sign) for deputy d on this
// node with a harness-built header. Nothing is stored. Returns the block and the txs the miner discarded as invalid.
func (n *Node) Assemble(d *Deputy, header *types.Header, txs types.Transactions) (*types.Block, types.Transactions, error) {
	n.ActAs(d)
	cp := make(types.Transactions, len(txs))
	for i, tx := range txs {
		cp[i] = CloneTx(tx)
	}
	return n.Engine.VerifAssembler().MineBlock(header.Copy(), cp, 3600*1000)
}

// Store saves a block assembled on this node exactly like DPoVP.MineBlock does after assembling.
func (n *Node) Store(b *types.Block) error {
	return n.Engine.VerifSaveNewBlock(b)
}

// MineAs = Assemble + Store: deputy d (rank from the node's term table) mines on parent at the given time.
func (n *Node) MineAs(d *Deputy, parent *types.Block, time uint32, txs types.Transactions) (*types.Block, types.Transactions, error) {
	b, invalid, err := n.Assemble(d, Header(parent, d.Miner.Addr, time, ""), txs)
	if err != nil {
		return nil, invalid, err
	}
	if err := n.Store(b); err != nil {
		return nil, invalid, fmt.Errorf("store mined block: %v", err)
	}
	return b, invalid, nil
}

// MineAsHeader = Assemble + Store with a harness-built header (e.g. a chosen gas limit).
func (n *Node) MineAsHeader(d *Deputy, header *types.Header, txs types.Transactions) (*types.Block, types.Transactions, error) {
	b, invalid, err := n.Assemble(d, header, txs)
	if err != nil {
		return nil, invalid, err
	}
	if err := n.Store(b); err != nil {
		return nil, invalid, fmt.Errorf("store mined block: %v", err)
	}
	return b, invalid, nil
}

// MineNext mines the next block on parent by the deputy whose turn it is right after the parent (first slot).
func (n *Node) MineNext(parent *types.Block, txs types.Transactions) *types.Block {
	h := parent.Height() + 1
	cnt := n.DM.GetDeputiesCount(h)
	rank := 0
	if !(h == 1 || deputynode.IsRewardBlock(h)) {
		rank = (n.RankOf(h, parent.MinerAddress()) + 1) % cnt
	}
	d := n.DeputyAt(h, rank)
	b, _, err := n.MineAs(d, parent, n.TimeFor(parent, rank, 0, 1), txs)
	if err != nil {
		panic(fmt.Sprintf("MineNext: %v", err))
	}
	return b
}

// DeputyAt maps rank at height h to the world's deputy (by node id).
func (n *Node) DeputyAt(h uint32, rank int) *Deputy {
	nodes := n.DM.GetDeputiesByHeight(h, true)
	if rank < 0 || rank >= len(nodes) {
		return nil
	}
	for _, d := range n.World.AllDeputies() {
		if string(d.NodeID) == string(nodes[rank].NodeID) {
			return d
		}
	}
	return nil
}

// SignBlockAs signs a (possibly forged) block hash with any node key.
func SignBlockAs(b *types.Block, d *Deputy) {
	h := b.Hash()
	sig, err := crypto.Sign(h[:], d.NodeKey)
	if err != nil {
		panic(err)
	}
	b.Header.SignData = sig
}

// ConfirmAs produces deputy d's confirm signature for a block.
func ConfirmAs(b *types.Block, d *Deputy) types.SignData {
	h := b.Hash()
	sig, err := crypto.Sign(h[:], d.NodeKey)
	if err != nil {
		panic(err)
	}
	return types.BytesToSignData(sig)
}
