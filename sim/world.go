package sim

import (
	"crypto/ecdsa"
	"fmt"
	"math/big"

	"github.com/LemoFoundationLtd/lemochain-core/chain"
	"github.com/LemoFoundationLtd/lemochain-core/common"
	"github.com/LemoFoundationLtd/lemochain-core/common/crypto"
)

// T0 is the fixed epoch all deterministic histories are anchored at (far in the past, so that the
// validator's only wall-clock test, "not in the future", is constant-true).
const T0 uint32 = 1600000000

// ChainID used by every simulated node.
const ChainID uint16 = 200

// MineTimeoutMs is the slot length handed to chain.NewBlockChain (milliseconds).
const MineTimeoutMs uint64 = 10000

// Key derives a private key deterministically from a label. No crypto/rand anywhere in the harness.
func Key(label string) *ecdsa.PrivateKey {
	for i := 0; ; i++ {
		d := crypto.Keccak256([]byte(fmt.Sprintf("verif-key/%s/%d", label, i)))
		k, err := crypto.ToECDSA(d)
		if err == nil {
			return k
		}
	}
}

// Actor is an externally owned account with its key.
type Actor struct {
	Name string
	Key  *ecdsa.PrivateKey
	Addr common.Address
}

func NewActor(name string) *Actor {
	k := Key(name)
	return &Actor{Name: name, Key: k, Addr: crypto.PubkeyToAddress(k.PublicKey)}
}

// Deputy is a consensus node: node key (signs blocks and confirms), miner account, income account.
type Deputy struct {
	Index   int
	NodeKey *ecdsa.PrivateKey
	NodeID  []byte
	Miner   *Actor
	Income  *Actor
}

// World is the fixed cast of one generated case.
type World struct {
	Deputies []*Deputy
	Founder  *Actor
	Users    []*Actor
	Outsider *Deputy // a node key which is never a deputy
}

// NewWorld builds a world with d deputies and u users. tag separates key spaces between cases when wanted.
func NewWorld(tag string, d, u int) *World {
	w := &World{Founder: NewActor(tag + "/founder")}
	for i := 0; i < d; i++ {
		w.Deputies = append(w.Deputies, newDeputy(tag, i))
	}
	for i := 0; i < u; i++ {
		w.Users = append(w.Users, NewActor(fmt.Sprintf("%s/user/%d", tag, i)))
	}
	w.Outsider = newDeputy(tag+"/outsider", 99)
	return w
}

func newDeputy(tag string, i int) *Deputy {
	nk := Key(fmt.Sprintf("%s/node/%d", tag, i))
	return &Deputy{
		Index:   i,
		NodeKey: nk,
		NodeID:  crypto.PrivateKeyToNodeID(nk),
		Miner:   NewActor(fmt.Sprintf("%s/miner/%d", tag, i)),
		Income:  NewActor(fmt.Sprintf("%s/income/%d", tag, i)),
	}
}

// Genesis returns the genesis description of this world.
func (w *World) Genesis() *chain.Genesis {
	infos := make([]*chain.CandidateInfo, 0, len(w.Deputies))
	for i, d := range w.Deputies {
		infos = append(infos, &chain.CandidateInfo{
			MinerAddress:  d.Miner.Addr,
			IncomeAddress: d.Income.Addr,
			NodeID:        d.NodeID,
			Host:          "127.0.0.1",
			Port:          fmt.Sprintf("%d", 7001+i),
			Introduction:  fmt.Sprintf("deputy %d", i),
		})
	}
	return &chain.Genesis{
		Time:            T0,
		ExtraData:       "",
		GasLimit:        105000000,
		Founder:         w.Founder.Addr,
		DeputyNodesInfo: infos,
	}
}

// DeputyByMiner finds the deputy owning a miner address (genesis deputies, or users who registered as candidates
// and were elected: their node key is the one CandidateProfile publishes).
func (w *World) DeputyByMiner(addr common.Address) *Deputy {
	for _, d := range w.Deputies {
		if d.Miner.Addr == addr {
			return d
		}
	}
	for _, u := range w.Users {
		if u.Addr == addr {
			return w.UserDeputy(u)
		}
	}
	return nil
}

// UserDeputy is the deputy identity of a user who registered as candidate.
func (w *World) UserDeputy(u *Actor) *Deputy {
	nk := Key("node-of/" + u.Name)
	return &Deputy{Index: -1, NodeKey: nk, NodeID: crypto.PrivateKeyToNodeID(nk), Miner: u, Income: u}
}

// AllDeputies lists the genesis deputies and every user's deputy identity.
func (w *World) AllDeputies() []*Deputy {
	res := append([]*Deputy{}, w.Deputies...)
	for _, u := range w.Users {
		res = append(res, w.UserDeputy(u))
	}
	return res
}

// ActorByAddr finds a known key holder.
func (w *World) ActorByAddr(addr common.Address) *Actor {
	if w.Founder.Addr == addr {
		return w.Founder
	}
	for _, u := range w.Users {
		if u.Addr == addr {
			return u
		}
	}
	for _, d := range w.Deputies {
		if d.Miner.Addr == addr {
			return d.Miner
		}
		if d.Income.Addr == addr {
			return d.Income
		}
	}
	return nil
}

// AllAddresses lists every address of the cast plus the fixed interesting ones.
func (w *World) AllAddresses() []common.Address {
	res := []common.Address{w.Founder.Addr}
	for _, d := range w.Deputies {
		res = append(res, d.Miner.Addr, d.Income.Addr)
	}
	for _, u := range w.Users {
		res = append(res, u.Addr)
	}
	res = append(res, common.HexToAddress("0x1001"), common.HexToAddress("0x09"), common.Address{})
	return res
}

// Lemo converts whole LEMO to mo.
func Lemo(n int64) *big.Int {
	return new(big.Int).Mul(big.NewInt(n), common.OneLEMO)
}
