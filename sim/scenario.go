package sim

import (
	"fmt"
	"math/big"
	"sort"

	"github.com/LemoFoundationLtd/lemochain-core/chain/deputynode"
	"github.com/LemoFoundationLtd/lemochain-core/chain/params"
	"github.com/LemoFoundationLtd/lemochain-core/chain/types"
	"github.com/LemoFoundationLtd/lemochain-core/common"
	"github.com/LemoFoundationLtd/lemochain-core/store"
	"pgregory.net/rapid"
)

// Scenario is a generated chain history: a factory node F that mines as any deputy, a validator V that receives every
// block as bytes, a transaction generator and the list of blocks so far.
type Scenario struct {
	W        *World
	F, V     *Node
	Gen      *TxGen
	Blocks   []*types.Block           // every block mined, in order
	Offered  map[common.Hash][]*GenTx // block hash -> candidate list the miner was given
	Packaged map[common.Hash]bool     // transactions (and box sub transactions) on the chain so far: a pool would not offer them again
	Keys     Keys                     // key universe harvested from change logs
	Addrs    map[common.Address]bool
	History  []string
}

// Funding is how much each user gets in block 1 (whole LEMO). Users 0 and 1 can afford a candidate deposit.
var Funding = []int64{6000900, 5000400, 1000, 450, 199, 20000}

// Options of a scenario beyond the deputy count and the transaction mix.
type Options struct {
	Deputies        int
	Weights         Weights
	TermDuration    uint32 // 0: production value
	InterimDuration uint32
	MaxCandidates   int     // 0: production value (20)
	DeputyCount     int     // configured maximum number of deputies (0: 17)
	Funding         []int64 // whole LEMO per user in block 1 (nil: Funding)
	FundDeputies    bool    // also give every deputy's miner and income account some LEMO (around the 200 LEMO vote boundary) and let them act
}

// NewScenario builds the world (d deputies, len(Funding) users), both nodes, and mines + validates the funding block.
func NewScenario(d int, weights Weights) *Scenario {
	return NewScenarioWith(Options{Deputies: d, Weights: weights})
}

// NewScenarioWith is NewScenario with small terms / candidate lists.
func NewScenarioWith(o Options) *Scenario {
	ResetGlobals()
	if o.TermDuration != 0 {
		params.TermDuration = o.TermDuration
		params.InterimDuration = o.InterimDuration
		params.RewardCheckHeight = 1
	}
	if o.MaxCandidates != 0 {
		store.VerifSetMaxCandidateCount(o.MaxCandidates)
	}
	if o.DeputyCount == 0 {
		o.DeputyCount = 17
	}
	d, weights := o.Deputies, o.Weights
	funding := o.Funding
	if funding == nil {
		funding = Funding
	}
	w := NewWorld("w", d, len(funding))
	s := &Scenario{W: w, Gen: NewTxGen(w, weights), Offered: map[common.Hash][]*GenTx{}, Addrs: map[common.Address]bool{}, Packaged: map[common.Hash]bool{}}
	s.F = NewNode(w, w.Deputies[0], o.DeputyCount)
	s.V = NewNode(w, nil, o.DeputyCount)
	for _, a := range w.AllAddresses() {
		s.Addrs[a] = true
	}
	var txs types.Transactions
	exp := uint64(T0 + 1000)
	for i, u := range w.Users {
		txs = append(txs, Transfer(w.Founder, u.Addr, Lemo(funding[i]), exp))
	}
	if o.FundDeputies {
		for i, dep := range w.Deputies {
			txs = append(txs, Transfer(w.Founder, dep.Miner.Addr, Lemo(int64(150+100*i)), exp), Transfer(w.Founder, dep.Income.Addr, Lemo(int64(199+150*i)), exp))
		}
		s.Gen.DeputiesAct = true
	}
	b := s.F.MineNext(s.F.Genesis, txs)
	if len(b.Txs) != len(txs) {
		panic(fmt.Sprintf("funding block packaged %d of %d", len(b.Txs), len(txs)))
	}
	s.NoteBlock(b, nil)
	if err := s.V.Insert(b); err != nil {
		panic(fmt.Sprintf("validator rejects the funding block: %v", err))
	}
	s.ConfirmAll(b)
	return s
}

func (s *Scenario) NoteBlock(b *types.Block, offered []*GenTx) {
	s.Blocks = append(s.Blocks, b)
	s.Offered[b.Hash()] = offered
	s.History = append(s.History, s.DescribeBlock(b, offered))
	for _, a := range s.Keys.HarvestLogs(b.ChangeLogs) {
		s.Addrs[a] = true
	}
	for _, tx := range b.Txs {
		s.Packaged[tx.Hash()] = true
		if tx.Type() == params.BoxTx {
			if box, err := types.GetBox(tx.Data()); err == nil {
				for _, sub := range box.SubTxList {
					s.Packaged[sub.Hash()] = true
				}
			}
		}
		s.Addrs[tx.From()] = true
		if tx.To() != nil {
			s.Addrs[*tx.To()] = true
		}
	}
}

// AddrList is the sorted address universe (world + everything named in change logs or transactions so far).
func (s *Scenario) AddrList() []common.Address {
	res := make([]common.Address, 0, len(s.Addrs))
	for a := range s.Addrs {
		res = append(res, a)
	}
	sort.Slice(res, func(i, j int) bool { return string(res[i][:]) < string(res[j][:]) })
	return res
}

// ConfirmAll hands the confirms of all deputies other than the miner to both nodes (makes the block stable).
func (s *Scenario) ConfirmAll(b *types.Block) {
	var sigs []types.SignData
	for rank := range s.F.DM.GetDeputiesByHeight(b.Height(), true) {
		d := s.F.DeputyAt(b.Height(), rank)
		if d != nil && d.Miner.Addr != b.MinerAddress() {
			sigs = append(sigs, ConfirmAs(b, d))
		}
	}
	for _, n := range []*Node{s.F, s.V} {
		n.BecomeSelf()
		n.BC.InsertConfirms(b.Height(), b.Hash(), sigs)
	}
}

// Close destroys both nodes.
func (s *Scenario) Close() {
	s.F.Destroy()
	s.V.Destroy()
}

// Head is the factory's current block.
func (s *Scenario) Head() *types.Block { return s.F.Current() }

// NextSlot draws who mines the next block on parent and when: mostly the deputy in turn right away, sometimes a later slot.
func (s *Scenario) NextSlot(t *rapid.T, parent *types.Block) (*Deputy, uint32) {
	h := parent.Height() + 1
	cnt := s.F.DM.GetDeputiesCount(h)
	first := 0
	if !(h == 1 || deputynode.IsRewardBlock(h)) {
		first = (s.F.RankOf(h, parent.MinerAddress()) + 1) % cnt
	}
	skip := 0
	if cnt > 1 && rapid.IntRange(0, 4).Draw(t, "skipSlots") == 0 {
		skip = rapid.IntRange(1, cnt).Draw(t, "nskip")
	}
	rank := (first + skip) % cnt
	loops := skip / cnt
	off := uint32(rapid.IntRange(0, int(SlotSeconds)-1).Draw(t, "slotOffset"))
	return s.F.DeputyAt(h, rank), s.F.TimeFor(parent, rank, loops, off)
}

// GenBlockTxs draws n candidate transactions for a block on parent at blockTime.
func (s *Scenario) GenBlockTxs(t *rapid.T, parent *types.Block, blockTime uint32, n int) []*GenTx {
	view := s.F.View(parent.Hash())
	res := make([]*GenTx, 0, n)
	seen := map[common.Hash]bool{}
	for i := 0; i < n; i++ {
		g := s.Gen.Draw(t, view, blockTime)
		// the candidate list comes from a pool: it holds no transaction that is on the chain already and none twice
		if s.Fresh(g.Tx, seen) {
			res = append(res, g)
		}
	}
	return res
}

// Fresh says whether a pool could still hold tx (neither it nor, for a box, any sub transaction is on the chain or in
// `seen`), and marks it seen.
func (s *Scenario) Fresh(tx *types.Transaction, seen map[common.Hash]bool) bool {
	hashes := []common.Hash{tx.Hash()}
	if tx.Type() == params.BoxTx {
		if box, err := types.GetBox(tx.Data()); err == nil {
			for _, sub := range box.SubTxList {
				hashes = append(hashes, sub.Hash())
			}
		}
	}
	for _, h := range hashes {
		if s.Packaged[h] || seen[h] {
			return false
		}
	}
	for _, h := range hashes {
		seen[h] = true
	}
	return true
}

// Txs extracts the transactions of a candidate list.
func Txs(list []*GenTx) types.Transactions {
	res := make(types.Transactions, len(list))
	for i, g := range list {
		res[i] = g.Tx
	}
	return res
}

// MineAndValidate mines a block with the candidate list on F as deputy d and inserts its bytes into V.
// Returns the block and V's verdict.
func (s *Scenario) MineAndValidate(d *Deputy, parent *types.Block, time uint32, offered []*GenTx) (*types.Block, error) {
	b, _, err := s.F.MineAs(d, parent, time, Txs(offered))
	if err != nil {
		desc := ""
		for _, g := range offered {
			desc += fmt.Sprintf(" [%s %s: %s]", g.Kind, g.Decoy, g.Note)
		}
		return nil, fmt.Errorf("mining on block %d at t=+%d failed: %v; candidates:%s", parent.Height(), time-T0, err, desc)
	}
	s.NoteBlock(b, offered)
	return b, s.V.Insert(b)
}

// DescribeBlock writes a block and its candidate list out.
func (s *Scenario) DescribeBlock(b *types.Block, offered []*GenTx) string {
	packaged := map[common.Hash]bool{}
	for _, tx := range b.Txs {
		packaged[tx.Hash()] = true
	}
	out := fmt.Sprintf("block %d t=+%d miner=%s:", b.Height(), b.Time()-T0, b.MinerAddress().Hex()[36:])
	for _, g := range offered {
		mark := "discarded"
		if packaged[g.Tx.Hash()] {
			mark = "packaged"
		}
		dec := ""
		if g.Decoy != "" {
			dec = " decoy(" + g.Decoy + ")"
		}
		out += fmt.Sprintf(" [%s %s%s: %s]", mark, g.Kind, dec, g.Note)
	}
	return out
}

// TotalBalance sums the balances of the given addresses at a block on a node.
func TotalBalance(n *Node, hash common.Hash, addrs []common.Address) *big.Int {
	view := n.View(hash)
	sum := new(big.Int)
	for _, a := range addrs {
		sum.Add(sum, view.GetAccount(a).GetBalance())
	}
	return sum
}
