package sim

import (
	"crypto/ecdsa"
	"encoding/json"
	"fmt"
	"math/big"

	"github.com/LemoFoundationLtd/lemochain-core/chain/params"
	"github.com/LemoFoundationLtd/lemochain-core/chain/types"
	"github.com/LemoFoundationLtd/lemochain-core/common"
	"github.com/LemoFoundationLtd/lemochain-core/common/crypto"
	"github.com/LemoFoundationLtd/lemochain-core/common/rlp"
)

var GasPrice = big.NewInt(1000000000) // 1 G mo, the minimum the pool accepts

// CloneTx deep-copies a transaction through its RLP encoding (the product's Clone shares pointers).
func CloneTx(tx *types.Transaction) *types.Transaction {
	buf, err := rlp.EncodeToBytes(tx)
	if err != nil {
		panic(err)
	}
	var out types.Transaction
	if err := rlp.DecodeBytes(buf, &out); err != nil {
		panic(err)
	}
	return &out
}

// TxSpec is the harness-side description of a transaction before signing.
type TxSpec struct {
	Type     uint16
	From     common.Address
	To       *common.Address
	ToName   string
	Amount   *big.Int
	GasLimit uint64
	GasPrice *big.Int
	Data     []byte
	Exp      uint64
	Message  string
	ChainID  uint16
	GasPayer *common.Address // non-nil: reimbursement transaction
}

// Build makes the unsigned transaction for the spec.
func (s TxSpec) Build() *types.Transaction {
	cid := s.ChainID
	if cid == 0 {
		cid = ChainID
	}
	gp := s.GasPrice
	if gp == nil {
		gp = GasPrice
	}
	amt := s.Amount
	if amt == nil {
		amt = new(big.Int)
	}
	if s.GasPayer != nil {
		var tx *types.Transaction
		if s.To == nil {
			tx = types.NewReimbursementContractCreation(s.From, *s.GasPayer, amt, s.Data, s.Type, cid, s.Exp, s.ToName, s.Message)
		} else {
			tx = types.NewReimbursementTransaction(s.From, *s.To, *s.GasPayer, amt, s.Data, s.Type, cid, s.Exp, s.ToName, s.Message)
		}
		return tx
	}
	if s.To == nil {
		return types.NoReceiverTransaction(s.From, amt, s.GasLimit, gp, s.Data, s.Type, cid, s.Exp, s.ToName, s.Message)
	}
	return types.NewTransaction(s.From, *s.To, amt, s.GasLimit, gp, s.Data, s.Type, cid, s.Exp, s.ToName, s.Message)
}

// Sign signs an ordinary (self paid) transaction with the given keys, in order.
func Sign(tx *types.Transaction, keys ...*ecdsa.PrivateKey) *types.Transaction {
	var err error
	for _, k := range keys {
		tx, err = types.MakeSigner().SignTx(tx, k)
		if err != nil {
			panic(err)
		}
	}
	return tx
}

// SignReimbursed signs a gas-paid-by-other transaction: sender keys first, then gas terms, then payer keys.
func SignReimbursed(tx *types.Transaction, senderKeys []*ecdsa.PrivateKey, gasPrice *big.Int, gasLimit uint64, payerKeys []*ecdsa.PrivateKey) *types.Transaction {
	var err error
	for _, k := range senderKeys {
		tx, err = types.MakeReimbursementTxSigner().SignTx(tx, k)
		if err != nil {
			panic(err)
		}
	}
	tx = types.GasPayerSignatureTx(tx, gasPrice, gasLimit)
	for _, k := range payerKeys {
		tx, err = types.MakeGasPayerSigner().SignTx(tx, k)
		if err != nil {
			panic(err)
		}
	}
	return tx
}

// Transfer builds and signs a plain LEMO transfer.
func Transfer(from *Actor, to common.Address, amount *big.Int, exp uint64) *types.Transaction {
	return Sign(TxSpec{Type: params.OrdinaryTx, From: from.Addr, To: &to, Amount: amount, GasLimit: 100000, Exp: exp}.Build(), from.Key)
}

// CallContract builds a contract call (ordinary tx with data).
func CallContract(from *Actor, to common.Address, amount *big.Int, data []byte, gas uint64, exp uint64) *types.Transaction {
	return Sign(TxSpec{Type: params.OrdinaryTx, From: from.Addr, To: &to, Amount: amount, GasLimit: gas, Data: data, Exp: exp}.Build(), from.Key)
}

// CreateContract builds a contract creation with the given init code. The contract address is ContractAddr(tx).
func CreateContract(from *Actor, amount *big.Int, initCode []byte, gas uint64, exp uint64) *types.Transaction {
	return Sign(TxSpec{Type: params.CreateContractTx, From: from.Addr, Amount: amount, GasLimit: gas, Data: initCode, Exp: exp}.Build(), from.Key)
}

// ContractAddr predicts the address a creation transaction deploys to.
func ContractAddr(tx *types.Transaction) common.Address {
	return crypto.CreateContractAddress(tx.From(), tx.Hash())
}

// DeployCode wraps runtime code into init code which returns it (CODECOPY + RETURN).
func DeployCode(runtime []byte) []byte {
	n := len(runtime)
	if n > 0xffff {
		panic("runtime too long")
	}
	// PUSH2 n; DUP1; PUSH1 0x0c; PUSH1 0; CODECOPY; PUSH1 0; RETURN  (header is 12 bytes)
	init := []byte{0x61, byte(n >> 8), byte(n), 0x80, 0x60, 0x0c, 0x60, 0x00, 0x39, 0x60, 0x00, 0xf3}
	return append(init, runtime...)
}

// Vote builds a vote transaction.
func Vote(from *Actor, candidate common.Address, exp uint64) *types.Transaction {
	return Sign(TxSpec{Type: params.VoteTx, From: from.Addr, To: &candidate, GasLimit: 100000, Exp: exp}.Build(), from.Key)
}

// CandidateProfile builds the register data for an actor (node id derived from a deterministic key).
func CandidateProfile(a *Actor, isCandidate bool, extra map[string]string) []byte {
	nodeKey := Key("node-of/" + a.Name)
	p := map[string]string{
		types.CandidateKeyIsCandidate:   fmt.Sprintf("%v", isCandidate),
		types.CandidateKeyNodeID:        common.ToHex(crypto.PrivateKeyToNodeID(nodeKey)),
		types.CandidateKeyHost:          "10.0.0.1",
		types.CandidateKeyPort:          "8080",
		types.CandidateKeyIncomeAddress: a.Addr.String(),
	}
	for k, v := range extra {
		p[k] = v
	}
	buf, err := json.Marshal(p)
	if err != nil {
		panic(err)
	}
	return buf
}

// Register builds a register / top-up / modify / unregister candidate transaction.
func Register(from *Actor, amount *big.Int, isCandidate bool, extra map[string]string, exp uint64) *types.Transaction {
	return Sign(TxSpec{Type: params.RegisterTx, From: from.Addr, Amount: amount, GasLimit: 300000, Data: CandidateProfile(from, isCandidate, extra), Exp: exp}.Build(), from.Key)
}

// CreateAsset builds an asset creation. category 1 token, 2 non fungible, 3 common.
func CreateAsset(from *Actor, category uint32, replenishable bool, exp uint64, nonce string) *types.Transaction {
	asset := &types.Asset{
		Category:        category,
		IsDivisible:     category != types.NonFungibleAsset,
		Decimal:         2,
		IsReplenishable: replenishable && category != types.NonFungibleAsset,
		Profile:         types.Profile{"name": "A" + nonce, "symbol": "S", "description": "d", "suggestedGasLimit": "60000", "freeze": "false"},
	}
	data, err := json.Marshal(asset)
	if err != nil {
		panic(err)
	}
	return Sign(TxSpec{Type: params.CreateAssetTx, From: from.Addr, GasLimit: 500000, Data: data, Exp: exp, Message: nonce}.Build(), from.Key)
}

// IssueAsset builds an issue transaction; amount is given as decimal text so that adversarial spellings are possible.
func IssueAsset(from *Actor, to common.Address, code common.Hash, amount string, exp uint64, nonce string) *types.Transaction {
	data := []byte(fmt.Sprintf(`{"assetCode":"%s","metaData":"m%s","supplyAmount":"%s"}`, code.Hex(), nonce, amount))
	return Sign(TxSpec{Type: params.IssueAssetTx, From: from.Addr, To: &to, GasLimit: 500000, Data: data, Exp: exp, Message: nonce}.Build(), from.Key)
}

// ReplenishAsset builds a replenish transaction.
func ReplenishAsset(from *Actor, to common.Address, code, id common.Hash, amount string, exp uint64, nonce string) *types.Transaction {
	data := []byte(fmt.Sprintf(`{"assetCode":"%s","assetId":"%s","replenishAmount":"%s"}`, code.Hex(), id.Hex(), amount))
	return Sign(TxSpec{Type: params.ReplenishAssetTx, From: from.Addr, To: &to, GasLimit: 500000, Data: data, Exp: exp, Message: nonce}.Build(), from.Key)
}

// ModifyAsset builds a modify-asset-profile transaction.
func ModifyAsset(from *Actor, code common.Hash, profile map[string]string, exp uint64, nonce string) *types.Transaction {
	info := &types.ModifyAssetInfo{AssetCode: code, UpdateProfile: profile}
	data, err := json.Marshal(info)
	if err != nil {
		panic(err)
	}
	return Sign(TxSpec{Type: params.ModifyAssetTx, From: from.Addr, GasLimit: 500000, Data: data, Exp: exp, Message: nonce}.Build(), from.Key)
}

// TransferAsset builds an asset transfer; amount as decimal text.
func TransferAsset(from *Actor, to common.Address, id common.Hash, amount string, exp uint64, nonce string) *types.Transaction {
	data := []byte(fmt.Sprintf(`{"assetId":"%s","transferAmount":"%s"}`, id.Hex(), amount))
	return Sign(TxSpec{Type: params.TransferAssetTx, From: from.Addr, To: &to, GasLimit: 500000, Data: data, Exp: exp, Message: nonce}.Build(), from.Key)
}

// SignerSpec is one registered signer of a multi-signature account.
type SignerSpec struct {
	Actor  *Actor
	Weight uint8
}

// ModifySigners builds the transaction which turns `from` into a multi-signature account (from == to).
func ModifySigners(from *Actor, signers []SignerSpec, exp uint64, keys ...*ecdsa.PrivateKey) *types.Transaction {
	list := make(types.Signers, 0, len(signers))
	for _, s := range signers {
		list = append(list, types.SignAccount{Address: s.Actor.Addr, Weight: s.Weight})
	}
	data, err := json.Marshal(map[string]interface{}{"signers": list})
	if err != nil {
		panic(err)
	}
	to := from.Addr
	tx := TxSpec{Type: params.ModifySignersTx, From: from.Addr, To: &to, GasLimit: 500000, Data: data, Exp: exp}.Build()
	if len(keys) == 0 {
		keys = []*ecdsa.PrivateKey{from.Key}
	}
	return Sign(tx, keys...)
}

// Box wraps signed transactions into a box transaction signed by `from`.
func Box(from *Actor, subs types.Transactions, gas uint64, exp uint64) *types.Transaction {
	data, err := types.MarshalBoxData(subs)
	if err != nil {
		panic(err)
	}
	return Sign(TxSpec{Type: params.BoxTx, From: from.Addr, GasLimit: gas, Data: data, Exp: exp}.Build(), from.Key)
}

// Malleate re-encodes a 65 byte signature (r, s, v) as (r, n-s, v^1): different bytes, same recovered signer.
func Malleate(sig []byte) []byte {
	n, _ := new(big.Int).SetString("fffffffffffffffffffffffffffffffebaaedce6af48a03bbfd25e8cd0364141", 16)
	out := make([]byte, 65)
	copy(out, sig)
	s := new(big.Int).SetBytes(sig[32:64])
	s.Sub(n, s)
	sb := s.Bytes()
	for i := 32; i < 64; i++ {
		out[i] = 0
	}
	copy(out[64-len(sb):64], sb)
	out[64] = sig[64] ^ 1
	return out
}

// WithSigs returns a copy of tx carrying exactly the given sender signatures (through the RLP form: the fields are private).
func WithSigs(tx *types.Transaction, sigs [][]byte) *types.Transaction { return setTxField(tx, 14, sigs) }

// WithPayerSigs returns a copy of tx carrying exactly the given gas payer signatures.
func WithPayerSigs(tx *types.Transaction, sigs [][]byte) *types.Transaction {
	return setTxField(tx, 15, sigs)
}

func setTxField(tx *types.Transaction, idx int, sigs [][]byte) *types.Transaction {
	buf, err := rlp.EncodeToBytes(tx)
	if err != nil {
		panic(err)
	}
	var fields []rlp.RawValue
	if err := rlp.DecodeBytes(buf, &fields); err != nil || len(fields) <= idx {
		panic(fmt.Sprintf("split tx: %v (%d fields)", err, len(fields)))
	}
	if sigs == nil {
		sigs = [][]byte{}
	}
	enc, err := rlp.EncodeToBytes(sigs)
	if err != nil {
		panic(err)
	}
	fields[idx] = enc
	out, err := rlp.EncodeToBytes(fields)
	if err != nil {
		panic(err)
	}
	var res types.Transaction
	if err := rlp.DecodeBytes(out, &res); err != nil {
		panic(err)
	}
	return &res
}
