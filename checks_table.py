"""Per-property units: which Go test, how many generated cases per tier, how many shards."""

CHECKS = {
    "C13": {
        "pkg": "./checks/c13",
        "level": "exploration",
        "rule": "enumerate: every (deputy count, next-term size, extra listed candidates, slot length, height kind, parent rank) x every instant "
                "from parent-1 slot to parent+3 rounds in 250 ms steps plus every slot boundary +-1 ms; at each instant the in-turn deputy, "
                "every deputy's distance/window and the verifier's verdict for every (window instant, deputy) pair are compared with the slot model. "
                "non-trivial = instant within 1 s of a slot boundary or a special height (1, snapshot, last interim, reward, reward+1); "
                "random: sizes up to 17, slots up to 30 s, up to 2000 elapsed rounds, parent times up to 2^32.",
        "level_text": "Exhaustive enumeration of the schedule functions on a bounded box (1..5 deputies quick, 1..9 thorough; slot lengths 1-10 s; all height kinds; "
                      "every 250 ms instant and every boundary +-1 ms over 3 rounds) plus rapid-generated points far outside the box, each compared with an independent slot model. "
                      "The functions are pure and arithmetic, so a bounded-exhaustive sweep plus random far points is the right level; it is not a proof for all n.",
        "level_note": "Trusted: the slot model (15 lines, written from the statement), the fake snapshot-block loader that feeds deputynode.Manager, whole-second timestamps.",
        "technique": "bounded-exhaustive enumeration + rapid property test against a reference slot model",
        "assumptions": ["slot lengths are whole seconds and parent timestamps are whole seconds (header field is in seconds)",
                        "the parent's miner is a deputy of the signing term unless the height is 1 or the first block of a term"],
        "units": [
            {"name": "enumerate", "test": "TestC13Enumerate", "quick": {"timeout": 600}, "thorough": {"timeout": 3000}},
            {"name": "random", "test": "TestC13Random", "quick": {"checks": 20000, "timeout": 600}, "thorough": {"checks": 200000, "shards": 8, "timeout": 3000}},
        ],
    },
}

NOT_APPLICABLE = {}
