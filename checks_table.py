"""Per-property units: which Go test, how many generated cases per tier, how many shards."""

CHECKS = {
    "C13": {
        "pkg": "./checks/c13",
        "level": "exploration",
        "rule": "enumerate: every (deputy count, next-term size, extra listed candidates, slot length, height kind, parent rank) x every instant "
                "from parent-1 slot to parent+3 rounds in 250 ms steps plus every slot boundary +-1 ms; at each instant the in-turn deputy, "
                "every deputy's distance/window and the verifier's verdict for every (window instant, deputy) pair are compared with the slot model. "
                "non-trivial = instant within 1 s of a slot boundary or a special height (1, snapshot, last interim, reward, reward+1); "
                "random: sizes up to 17, slots up to 30 s, up to 2000 elapsed rounds, parent times up to 2^32.",
        "level_text": "Exhaustive enumeration of the schedule functions on a bounded box (1..5 deputies quick, 1..9 thorough; slot lengths 1-10 s; all height kinds; "
                      "every 250 ms instant and every boundary +-1 ms over 3 rounds) plus rapid-generated points far outside the box, each compared with an independent slot model. "
                      "The functions are pure and arithmetic, so a bounded-exhaustive sweep plus random far points is the right level; it is not a proof for all n.",
        "level_note": "Trusted: the slot model (15 lines, written from the statement), the fake snapshot-block loader that feeds deputynode.Manager, whole-second timestamps.",
        "technique": "bounded-exhaustive enumeration + rapid property test against a reference slot model",
        "assumptions": ["slot lengths are whole seconds and parent timestamps are whole seconds (header field is in seconds)",
                        "the parent's miner is a deputy of the signing term unless the height is 1 or the first block of a term"],
        "units": [
            {"name": "enumerate", "test": "TestC13Enumerate", "quick": {"shards": 5, "timeout": 600}, "thorough": {"shards": 9, "timeout": 3000}},
            {"name": "random", "test": "TestC13Random", "quick": {"checks": 20000, "timeout": 600}, "thorough": {"checks": 200000, "shards": 8, "timeout": 3000}},
        ],
    },
}

CHECKS["C14"] = {
    "pkg": "./checks/c14",
    "level": "exploration",
    "rule": "rapid value generators for header, transaction (all 11 types, box payloads, reimbursed, 0-3 real signatures), change logs of every type "
            "(produced by the real account manager from generated setter calls, incl. empty profile / nil asset / nil equity / empty signers, optionally merged and finalised), "
            "whole blocks, account records, deputy nodes, confirm / handshake / get-blocks messages, addresses. Oracles: decode(encode(v)) equal (same dynamic types), same hash, same "
            "recovered signers, encode(decode(encode(v))) == encode(v), JSON round trip of transactions (valid UTF-8 only), address text round trip incl. lower case. "
            "Canonicity: for 16 primitive/composite kinds and byte strings made from valid encodings by 8 classic non-canonical rewritings (or arbitrary), decode ok => re-encode == input. "
            "Robustness: 17 decoders on intact / truncated / byte-replaced / spliced / huge-length / arbitrary inputs never panic. "
            "non-trivial = value with an elided / optional / empty field, or a byte string some decoder accepted or that was derived from a valid encoding; distinct by encoding digest.",
    "level_text": "Generated round-trip, canonicity (metamorphic: one byte string per value) and never-panics checks over every consensus object and wire message, "
                  "tens of thousands of values per run plus coverage-guided native fuzzing of all decoders in the thorough tier. Exploration, not proof: the value space is unbounded.",
    "level_note": "Trusted: the generators produce the dynamic value shapes the product creates (change logs come from the real SafeAccount setters); equality is judged by a type-tagged rendering; "
                  "JSON is only compared for strings that are valid UTF-8 (JSON cannot carry anything else).",
    "technique": "rapid round-trip / metamorphic canonicity properties + native go fuzzing with the oracle inside the target",
    "assumptions": ["JSON round trip is only demanded for valid UTF-8 strings", "account records are compared as values (their encoding order follows map iteration and they are not hashed)"],
    "units": [
        {"name": "header", "test": "TestC14Header", "quick": {"checks": 5000}, "thorough": {"checks": 100000, "shards": 2, "timeout": 1800}},
        {"name": "tx", "test": "TestC14Tx", "quick": {"checks": 4000}, "thorough": {"checks": 60000, "shards": 4, "timeout": 1800}},
        {"name": "changelog", "test": "TestC14ChangeLog", "quick": {"checks": 4000}, "thorough": {"checks": 60000, "shards": 4, "timeout": 1800}},
        {"name": "account+messages", "test": "TestC14AccountAndMessages", "quick": {"checks": 4000}, "thorough": {"checks": 60000, "shards": 2, "timeout": 1800}},
        {"name": "address", "test": "TestC14Address", "quick": {"checks": 5000}, "thorough": {"checks": 200000, "timeout": 1800}},
        {"name": "canonical", "test": "TestC14Canonical", "quick": {"checks": 20000}, "thorough": {"checks": 300000, "shards": 4, "timeout": 1800}},
        {"name": "robust", "test": "TestC14Robust", "quick": {"checks": 10000}, "thorough": {"checks": 150000, "shards": 4, "timeout": 1800}},
        {"name": "fuzz", "fuzz": "FuzzDecoders", "test": "FuzzDecoders", "thorough": {"fuzztime": "180s", "workers": 16, "timeout": 600}},
    ],
}

CHECKS["C17"] = {
    "pkg": "./checks/c17",
    "level": "exploration",
    "rule": "rapid state machine over Trie / SecureTrie on a MemDatabase- or BeansDB-backed node database with cache limit 0..2: update (empty / 1 byte / >32 byte values), delete, get, hash, "
            "commit (memory layer only), commit+flush, reopen by root on the same node database, restart (flush + fresh node database on the same disk store), read any older flushed root, "
            "proof (VerifyProof from the recorded path nodes served content-addressed; one node dropped / truncated / bit-flipped must give an error). Keys from a 6-symbol alphabet, length 1..5 (+30 byte tail), "
            "so shared prefixes and splits dominate. Oracles: map model, root of a fresh trie fed the model sorted and shuffled. non-trivial = history with a delete and a reopen/restart/old-root read and >= 6 ops; distinct by op list digest. "
            "Merkle: every leaf count 0..40 (200 thorough) x every position x spare slice capacity {0,1,7}: root == independent pairing rule, proof verifies, fails for an altered leaf, "
            "root changes on alter/drop/swap, caller's slice untouched, tree unaffected by later appends; plus random lists up to 300 leaves with duplicates.",
    "level_text": "Model-based generated histories against a map and an independently rebuilt trie, and a bounded-exhaustive sweep of the Merkle tree; a few thousand histories per quick run. "
                  "Exploration: key/value space and history length are bounded by the generator, not by the code.",
    "level_note": "Trusted: the map model; Keccak; MemDatabase as one of the two disk stores; the light-client proof set (map keyed by Keccak of each blob). Prove() does not exist in this tree, so proofs are assembled from the nodes VerifyProof itself asks for.",
    "technique": "rapid stateful model-based testing + bounded-exhaustive enumeration",
    "assumptions": ["an empty value removes the key (documented trie behaviour)", "node blobs of different cases are kept distinct by a per-case salt because the BeansDB store is shared within a process"],
    "units": [
        {"name": "trie", "test": "TestC17Trie", "quick": {"checks": 10000, "shards": 4}, "thorough": {"checks": 20000, "shards": 16, "timeout": 3000}},
        {"name": "merkle", "test": "TestC17MerkleEnumerate", "quick": {}, "thorough": {"timeout": 1800}},
        {"name": "merkle-random", "test": "TestC17MerkleRandom", "quick": {"checks": 2000}, "thorough": {"checks": 50000, "timeout": 1800}},
        {"name": "reference-vectors", "test": "TestC17ReferenceVectors", "quick": {}, "thorough": {}},
    ],
}

CHECKS["C09"] = {
    "pkg": "./checks/c09",
    "level": "exploration",
    "rule": "rapid state machine on a real ChainDatabase (no consensus): addBlock under any live block or the stable block followed by 0..4 account writes through the block's AccountTrieDB "
            "(once per block and address, before the block has children: the callers' protocol), read of any address through any live view (populates the in-place read cache), "
            "SetStableBlock on any live block (also several heights at once), restart. Addresses: a per-case pool of 5..10 drawn from 7 symbols at byte 0/9/19 (plus 10% fresh ones), so splits, shared prefixes and third/fourth children before, between and behind existing ones all occur while the same address is still written in several blocks. "
            "After every stabilisation / restart and every 7th step all live views x all addresses are compared with the tree model (nearest ancestor-or-self write, else persisted value), "
            "the live set (IterateUnConfirms, IsExistByHash, GetUnConfirmByHeight from every leaf), the pruned set, the stable pointer and the persisted accounts. "
            "non-trivial = a stabilisation pruned a non-descendant AND an address was read before a later write to it; distinct by op list digest.",
    "level_text": "Model-based generated histories over the store API against a tree-of-write-maps reference model; thousands of histories per run, full view comparison after every stabilisation. "
                  "Exploration bounded by history length (~30 steps) and the per-case address pool.",
    "level_note": "Trusted: the reference model (60 lines); the callers' protocol that a block's accounts are written once, right after SetBlock and before any child exists (as DPoVP.saveNewBlock does under the chain lock).",
    "technique": "rapid stateful model-based testing against a reference tree model",
    "assumptions": ["a block's accounts are written at most once per address and before the block has children", "a restart drops unconfirmed blocks (they live in memory only)"],
    "units": [
        {"name": "views", "test": "TestC09Views", "quick": {"checks": 600, "shards": 4, "timeout": 600}, "thorough": {"checks": 6000, "shards": 16, "timeout": 3000}},
    ],
}

CHECKS["C18"] = {
    "pkg": "./checks/c18",
    "level": "exploration",
    "rule": "sequential: rapid state machine on a real TxPool against a pending-set model with three states per transaction (pending, may-be-gone after a selection past its expiry, absent) plus "
            "optional index entries left behind by the documented quirk (deleting a sub transaction removes its pending box). Universe per case: 4..10 plain txs with expiries {100,200,300,1000}, "
            "1..4 boxes over 1..3 of them, fillers in runs of 60..140 for capacity doubling. Ops: AddTx, AddTxs, GetTxs(all / size 0..5) at times around the expiries, DelTxs of plain txs, sub txs and boxes, "
            "bulk deletion. Oracles after every selection: no duplicates, nothing absent/deleted/expired, no box with its sub or two boxes sharing a sub, every pending unexpired tx present when the selection is not cut; "
            "AddTx verdict must be justified by the model. non-trivial = history with a box/sub overlap, an expiry or a capacity doubling; distinct by op list digest. "
            "concurrent: 2..4 goroutines x 1..3 ops (AddTx / DelTxs / GetTxs) released from a barrier after a generated sequential prefix (optionally past the first capacity doubling), built with -race; "
            "the recorded history (start/end stamps, results) must be linearizable w.r.t. the deterministic part of the specification (brute-force search with memoisation); non-trivial = >= 4 concurrent ops touching a box or its subs. "
            "forkswitch: a real node (2..4 deputies) whose pool holds a universe of 3..8 transfers receives two or three forks (3..8 blocks in all, grown from the genesis or a common first block, any deputy and slot) whose blocks carry overlapping "
            "selections of that universe; whenever the engine's head moves to a block that is no descendant of the old head, the pool must hold exactly once every transaction of the abandoned fork that is not on the new fork and none that is on the "
            "new current fork; no selection hands a transaction out twice. non-trivial = at least one fork switch.",
    "level_text": "Model-based generated operation sequences against a reference pending-set model (sequential), linearizability of small concurrent histories under the race detector, and fork switches on a real node; "
                  "exploration bounded by sequence length and universe size.",
    "level_note": "Trusted: the pending-set model. The documented quirk (a deleted sub transaction removes its box and leaves unusable index entries) is modelled as optional behaviour, so it is neither required nor reported.",
    "technique": "rapid stateful model-based testing (+ brute-force linearizability check of generated concurrent histories)",
    "assumptions": ["a box is valid only if it expires no later than its sub transactions (checkBoxTx)", "transactions are identified by hash"],
    "units": [
        {"name": "sequential", "test": "TestC18Sequential", "quick": {"checks": 1500, "shards": 4, "timeout": 900}, "thorough": {"checks": 15000, "shards": 16, "timeout": 3000}},
        {"name": "forkswitch", "test": "TestC18ForkSwitch", "quick": {"checks": 300, "shards": 4, "timeout": 900}, "thorough": {"checks": 5000, "shards": 12, "timeout": 3000}},
        {"name": "concurrent", "test": "TestC18Concurrent", "race": True, "quick": {"checks": 600, "shards": 2, "timeout": 900}, "thorough": {"checks": 8000, "shards": 8, "timeout": 3000}},
    ],
}

CHECKS["C20"] = {
    "pkg": "./checks/c20",
    "level": "exploration",
    "rule": "cache: rapid state machines on network.BlockCache and network.ConfirmCache against sorted-multimap models (Add below / between / above / at existing heights, several blocks per height, Iterate with removal, Clear, Remove; "
            "Push / Pop / Clear / Size incl. the 10240-height overflow): size, first height, ascending iteration without loss or duplication. non-trivial = an insert between two cached heights or an Iterate that removed. "
            "sync: a valid segment of 3..7 blocks (2..5 deputies, generated transactions, a generated subset of deputies confirming each block) is delivered to the REAL ProtocolManager of a real node by 1..2 scripted p2p.IPeer "
            "connections as BlocksMsg (single or batches of 2..3, possibly reversed) and ConfirmMsg messages in a generated permutation with 0..4 duplicates; the harness owns the schedule at message granularity "
            "(the next message is sent once no delivered block is in transit from the cache into the chain). Oracle: after delivery the node's current and stable block hashes equal those of a node that got block 1, its confirms, block 2, ... in order; "
            "In a quarter of the cases some blocks are never pushed (fetch mode): the node must ask for the parents of the blocks it parks and the peers answer its block requests from the segment. "
            "A difference is a verdict only once current/stable/cache sizes have not changed for 4 s (8 timer periods); still changing after 30 s = inconclusive. non-trivial = a block delivered after a block at least two heights above it, or a confirm delivered before its block. "
            "txbatch: 1..4 TxsMsg batches of 1..8 transactions drawn with repetition from 1..10 valid transactions (transfers, creations, boxes; wall-clock expiries) and 0..4 decoys (expired, too far ahead, other chain id), via 1..2 peers; "
            "afterwards the pool holds every valid delivered transaction exactly once and nothing else (verdict after 3 s without change). non-trivial = a batch of >= 2.",
    "level_text": "Model-based state machines for the two caches, and generated delivery schedules driven through the real protocol manager and chain with a reference node as oracle; exploration bounded by segment length, duplicates and batch sizes.",
    "level_note": "The harness owns the schedule at message granularity only: it waits until cached blocks that became insertable have been inserted before it sends the next message, so the product's own race between the cache timer's asynchronous insert "
                  "and a confirm arriving in that window is not explored. Outside fetch mode the scripted peers are passive (they do not answer block requests), so convergence is due to the delivered messages alone. Forks and invalid blocks are out of the statement.",
    "technique": "rapid stateful model-based testing + generated message schedules against a reference node (differential)",
    "assumptions": ["the receiving node is not a deputy (it emits no confirms of its own)", "transaction batches use wall-clock expiries at least 120 s away from both window ends"],
    "units": [
        {"name": "blockcache", "test": "TestC20BlockCache", "quick": {"checks": 3000, "shards": 2, "timeout": 600}, "thorough": {"checks": 60000, "shards": 4, "timeout": 3000}},
        {"name": "blockcache-overflow", "test": "TestC20BlockCacheOverflow", "quick": {"checks": 3, "shards": 1, "timeout": 600}, "thorough": {"checks": 30, "shards": 2, "timeout": 3000}},
        {"name": "confirmcache", "test": "TestC20ConfirmCache", "quick": {"checks": 3000, "shards": 2, "timeout": 600}, "thorough": {"checks": 60000, "shards": 4, "timeout": 3000}},
        {"name": "sync", "test": "TestC20Sync", "quick": {"checks": 12, "shards": 8, "timeout": 900}, "thorough": {"checks": 250, "shards": 16, "timeout": 3400}},
        {"name": "txbatch", "test": "TestC20TxBatch", "quick": {"checks": 150, "shards": 4, "timeout": 900}, "thorough": {"checks": 4000, "shards": 8, "timeout": 3000}},
    ],
}

CHECKS["C15"] = {
    "pkg": "./checks/c15",
    "level": "exploration",
    "rule": "frames: a real server-side p2p.Peer on an in-memory connection; the remote writes a generated byte stream in generated splits, either from the first byte (before the transport handshake: random bytes, "
            "frames with hostile magic / claimed lengths {0,1,15..17,64 KiB+-1,25 MiB+-1,512 MiB,1 GiB+-1,2^31+-1,2^32-1}, ECIES-encrypted plaintexts shaped like the authentication request with fields of any size) "
            "or after a real handshake (ciphertext of any length incl. non-multiples of the block size, block-sized garbage, correctly encrypted plaintexts shorter than a message code, any code 0..2^32-1 with any payload, truncated bodies). "
            "Oracles: the process survives (every case is journaled before delivery, so a dying process is attributed to its input), peak live heap while the remote holds the connection <= 64 MiB + 64 x bytes sent "
            "(64 MiB = twice the code's own 25 MiB frame cap plus runtime slack), Peer.Run returns within 30 s after the remote hangs up. non-trivial = the input passed the magic/length gate (a message was delivered, or the handshake failed behind the gate). "
            "messages: 1..5 (+ scripted) protocol messages to the REAL ProtocolManager of a real node (chain of 1..3 blocks, 2..3 deputies) over scripted transports, each built from a valid payload of its type "
            "(status, block hash, block requests, confirm, confirms with up to 10000 signatures, discover request/response with hostile node strings, protocol handshake, transaction batches, blocks) and damaged by structure-aware "
            "mutation of its RLP tree (node -> empty string / empty list / hostile scalar, delete, duplicate x{1..10000}, wrap, flip, copy, lengthen, shorten), truncation, trailing bytes or replaced by random bytes; "
            "transactions of all 11 types with hostile JSON documents (null / wrong-typed / huge members, deleted members), type confusion, extreme amounts and gas, no / junk / 300 signatures, hostile boxes; "
            "blocks: the valid next block damaged and re-signed by the deputy in turn, consistent blocks the miner path assembles from hostile transactions, orphans at extreme heights, and an equivocation script "
            "(two blocks of one deputy for one height, his orphans parked before and delivered again after). Also delivered as the answer to the protocol handshake. Codes outside the protocol (0, 1, 0x0f..0x1f, 0x20, 2^32-1) included. "
            "Oracles: process survives; peak live heap <= 64 MiB + 64 x payload bytes; afterwards a fresh peer is registered, a status request is answered within 30 s and (when the head did not move) the valid next block is inserted within 30 s. "
            "non-trivial = at least one message that is neither truncated nor random (it decodes at least partly); distinct by description digest. "
            "flood: 10241..10400 orphan blocks at distinct heights (batches of 50 / 200 / 1000) and / or as many confirms for unknown blocks at distinct heights, i.e. more than the 10240 heights either cache holds before it empties itself; "
            "afterwards the liveness probes above, on a fresh connection and on the flooding connection itself. "
            "churn: 60..200 connections that complete the protocol handshake and are closed again (idle / after one request / after a garbage message / mixed); afterwards the node runs at most a handful of goroutines more than before "
            "and its live heap grew by less than 16 KiB per closed connection.",
    "level_text": "Generated hostile inputs (byte streams, frames, structure-aware mutated protocol messages, absurd blocks / confirms / transactions) against the real transport and protocol manager, with survival, live-heap and liveness oracles; "
                  "exploration bounded by message count and mutation depth. Thorough tier adds coverage-guided native fuzzing of the frame reader.",
    "level_note": "Deadlock is decided by generous bounds (30 s on an otherwise idle node). Block requests spanning more than 200000 heights are excluded and counted: respBlocks then loops for minutes per request, "
                  "which costs CPU, not memory, and is outside the statement as written. Memory is measured as live heap (HeapAlloc peak), not cumulative allocation. Transaction batches use wall-clock expiries, so a journaled batch replays faithfully only for about 10 minutes.",
    "technique": "rapid generators with structure-aware mutation + process-survival / heap / liveness oracles (+ native go fuzzing in the thorough tier)",
    "assumptions": ["the remote can complete the transport handshake (any key is accepted)", "the node under test is not a deputy"],
    "units": [
        {"name": "frames", "test": "TestC15Frames", "quick": {"checks": 250, "shards": 4, "timeout": 900}, "thorough": {"checks": 6000, "shards": 8, "timeout": 3400}},
        {"name": "messages", "test": "TestC15Messages", "quick": {"checks": 150, "shards": 8, "timeout": 900}, "thorough": {"checks": 1800, "shards": 16, "timeout": 3400}},
        {"name": "flood", "test": "TestC15Flood", "quick": {"checks": 2, "shards": 3, "timeout": 900}, "thorough": {"checks": 10, "shards": 6, "timeout": 3400}},
        {"name": "churn", "test": "TestC15Churn", "quick": {"checks": 8, "shards": 2, "timeout": 900}, "thorough": {"checks": 100, "shards": 4, "timeout": 3400}},
        {"name": "fuzz", "fuzz": "FuzzFrameReader", "test": "FuzzFrameReader", "thorough": {"fuzztime": "180s", "workers": 16, "timeout": 600}},
    ],
}

CHECKS["C19"] = {
    "pkg": "./checks/c19",
    "level": "exploration",
    "rule": "A node holding a deputy key (3..5 deputies, prefix of 1..3 blocks) gets 2..4 mutating requests plus 0..2 read queries released together from a barrier: InsertBlock of prepared blocks around the head "
            "(A: next block, A2: its sibling by another deputy, B: child of A, C: child of B - so parents may arrive after children), InsertConfirms packets (generated signer subsets for the head, A, A2, B), "
            "MineBlock (the node is usually the deputy whose wall-clock slot it is), and the read set of the RPC layer (current, stable, by height/hash, candidate list of the stable block, canonical account, deputies, unconfirmed tree). "
            "serializable: the end state (current, stable, per block the set of stored confirm signers) and the verdicts of the inserts and of the miner must equal those of the same requests executed one after the other "
            "in SOME order on a fresh copy (the oracle is the real engine run sequentially in every permutation, <= 24); every stored or emitted confirm is a valid signature of a deputy over the block it is stored with / names, "
            "no block stores two confirms of one deputy, the node never signs two blocks of one height, no read query panics. A case whose wall-clock mining slot moved while it ran is discarded. "
            "non-trivial = the sequential orders have at least two different outcomes; distinct by request list. "
            "store: 1..3 client goroutines on a real BeansDB (ChainDatabase's), each with 1..3 keys of its own and 2..25 operations: single Put or a batch of 2..12 items (the same keys repeatedly), usually followed at once by a Get; "
            "the concurrent party is the product's asynchronous writer retiring pending writes from the FileQueue index. Every Get must return the client's latest write (read-your-writes = the only sequential order a single client has); also run under -race. non-trivial = at least 6 writes. "
            "race: the same mixes in a binary built with -race; any data race report fails the unit. non-trivial = at least two mutating requests and three requests in all.",
    "level_text": "Generated concurrent request mixes against the real engine with a sequential-permutation oracle (serializability) and signature invariants, plus the Go race detector on the same mixes. "
                  "Schedules are sampled by the Go scheduler, not enumerated: the check can miss interleavings it never happens to produce.",
    "level_note": "The harness does not own the schedule; each mix runs once per case under whatever interleaving the runtime produces (thousands of mixes in the thorough tier). "
                  "The miner's slot depends on the wall clock, so the node's identity is chosen from the clock at generation time and a failing case is not replayable from its seed: the printed request list and outcome are the reproduction.",
    "technique": "rapid-generated concurrent request mixes; differential oracle = all sequential permutations on the real engine; Go race detector",
    "assumptions": ["the node's key is used by the node only (no prepared block is signed with it)", "blocks older than 3 minutes are confirmed but the confirm is not broadcast (product rule), so emitted confirms are mostly observed as stored signatures"],
    "units": [
        {"name": "serializable", "test": "TestC19Serializable", "quick": {"checks": 15, "shards": 8, "timeout": 900}, "thorough": {"checks": 70, "shards": 16, "timeout": 3400}},
        {"name": "store", "test": "TestC19Store", "quick": {"checks": 1500, "shards": 2, "timeout": 900}, "thorough": {"checks": 30000, "shards": 4, "timeout": 3400}},
        {"name": "store-race", "test": "TestC19Store", "race": True, "quick": {"checks": 300, "shards": 2, "timeout": 900}, "thorough": {"checks": 6000, "shards": 4, "timeout": 3400}},
        {"name": "race", "test": "TestC19Race", "race": True, "quick": {"checks": 80, "shards": 4, "timeout": 900}, "thorough": {"checks": 800, "shards": 8, "timeout": 3400}},
    ],
}

CHECKS["C08"] = {
    "pkg": "./checks/c08",
    "level": "exploration",
    "rule": "Generated workload: 1..3 deputies, 3..6 blocks with generated transfers, contract creations and calls, candidate registrations, votes, asset creation / issue / transfer and boxes, sometimes a fork block; confirm packets at generated moments "
            "(with one deputy every block is stable at once). A CHILD PROCESS executes it on a fresh data directory, opened exactly as main/node does; a crash-point hook (store/crashpoint, build tag verif) around every file write of the store "
            "(tmp.data and bitcask data files: before / inside / after the write and after fsync; context.data: head, body, before fsync, before rename; the LevelDB position index and stable pointer: before / after Put) kills it with SIGKILL at the k-th "
            "hit, k drawn from 1..N (N = hits of an undisturbed child), in mode clean or torn (only the first 1 / half / all-but-one bytes of that write reach the file). 3..6 crash points per workload (12 in the thorough tier). "
            "In a quarter of the cases the recovering process is killed the same way at its k2-th write (1..40). A last child reopens the directory and reports; then it receives the whole workload again. "
            "Oracles: reopening exits 0 (no panic, no manual repair); stable height >= the height the crashed child had journaled (fsynced, outside the data directory) after its last completed step; the stable block is the canonical block of its height; "
            "every block 0..stable is served by height and by hash and equals the golden chain; the account data of every address of the workload (balances, versions, storage and asset roots, candidate profile, votes, code readable) as of exactly that block, "
            "and the candidate list, equal those of a reference node on which that block is the latest stable one; after the workload was delivered again, current and stable block equal those of the undisturbed child. "
            "non-trivial = at least one crash actually happened and the workload had a promotion; distinct by ops + crash points.",
    "level_text": "Fault injection at generated crash points (incl. torn writes and crashes during recovery) in child processes, with a golden-run differential oracle. Crash points are sampled, not enumerated: "
                  "the background writer makes the k-th write schedule dependent, so the reproducible unit of a failure is the crashed directory image (kept as the replay artefact), not k.",
    "level_note": "The fault model is process death (SIGKILL): what was written survives, fsync is irrelevant; power loss (un-fsynced data vanishing) is not modelled. Crashes inside goleveldb's own files cannot be hooked. "
                  "After each step the children wait until the store's write queue is empty before the next step: the asset indexes of a block are written asynchronously and a block using them must not overtake them "
                  "(a timing dependence of the product that exists without any crash and is outside this property).",
    "technique": "rapid-generated workloads + crash-point fault injection in child processes + golden-run differential oracle",
    "assumptions": ["the node is restarted the way main/node does it (genesis is written when no block of height 0 exists)", "unconfirmed blocks are kept in memory only and are lost by design; the workload is delivered again after the restart"],
    "units": [
        {"name": "crash", "test": "TestC08Crash", "quick": {"checks": 40, "shards": 8, "timeout": 900}, "thorough": {"checks": 150, "shards": 16, "timeout": 3400}},
    ],
}

CHECKS["C07"] = {
    "pkg": "./checks/c07",
    "level": "exploration",
    "rule": "api: rapid state machine on a real account.Manager over a stable base block whose accounts already hold balance / code / trie-backed storage / assets / equity / profile / signers / votes: "
            "every SafeAccount setter with generated arguments on 4 accounts (in the shapes real callers produce: state and supply only of existing assets, candidate state only of existing keys, "
            "code only on code-less accounts, self-destruct only on contracts), Snapshot (depth <= 5), RevertToSnapshot(any live id). Oracles: after each revert the observable dump of all accounts over the key universe "
            "equals the dump at the snapshot and the journal has its old length, no panic; at the end a second real manager that executed only the surviving operations must agree on raw logs, state, "
            "merged+finalised logs, version root and finalised dumps incl. roots and version records. non-trivial = nesting depth >= 2 and a revert after (an earlier revert followed by further writes); distinct by history digest. "
            "evm: generated EVM scenarios (see C16) executed through a recording vm.AccountManager proxy that truncates its record at every RevertToSnapshot; a manager replaying only the surviving operations "
            "must agree on raw logs, state, finalised logs, roots and version root; non-trivial = nesting >= 2, a revert that undid writes and a write after a revert. "
            "chain: generated chain histories (C01 grammar, decoy- and box-heavy, small block gas limits): the miner's account manager after assembling the candidate list equals the one after assembling only the packaged "
            "transactions (all addresses, logged keys, roots, versions, raw code hash); RebuildAll of the block's wire-decoded change logs on the parent state equals the stored state of the executed block; "
            "non-trivial = a block with discards and a redone block.",
    "level_text": "Model-based generated histories with two oracles (stack of state dumps; differential against a manager that never executed the reverted operations), plus the same comparison inside real EVM executions, "
                  "miner-side discards and block redo. Exploration: history length and the 4-account / 15-key universe are generator bounds.",
    "level_note": "Trusted: the dump (public getters + verif-tagged raw account export); events are excluded (the statement does not list them and undo deliberately keeps them); "
                  "empty asset metadata is treated as absent (indistinguishable once stored).",
    "technique": "rapid stateful testing with a snapshot-stack oracle and a differential reference execution",
    "assumptions": ["SetCandidateState is only used on keys that exist (unregister / refund)", "an empty code hash and the hash of empty code both mean no code"],
    "units": [
        {"name": "api", "test": "TestC07API", "quick": {"checks": 4000, "shards": 4, "timeout": 900}, "thorough": {"checks": 40000, "shards": 16, "timeout": 3000}},
        {"name": "evm", "test": "TestC07EVM", "quick": {"checks": 2500, "shards": 4, "timeout": 900}, "thorough": {"checks": 25000, "shards": 16, "timeout": 3000}},
        {"name": "chain", "test": "TestC07Chain", "quick": {"checks": 150, "shards": 4, "timeout": 900}, "thorough": {"checks": 2500, "shards": 16, "timeout": 3400}},
    ],
}

CHECKS["C16"] = {
    "pkg": "./checks/c16",
    "level": "exploration",
    "rule": "programs: three contract slots (two with trie-backed storage) get generated code: grammar programs (arithmetic / memory / SSTORE on 4 colliding keys / LOG0-4 / CALL, CALLCODE, DELEGATECALL, STATICCALL "
            "to self, the other slots, precompiles 1,2,4,5,9, an EOA and an absent address with generated value and gas / CREATE with 13 tiny init codes incl. code-size boundary 24576 and 24577 / SELFDESTRUCT to self or other / "
            "endings STOP, RETURN, REVERT, INVALID, stack underflow, out-of-gas loop, forward jumps), the same with 1-3 bytes damaged, or arbitrary bytes; then 1..3 entries: Call / StaticCall / Create (constructor = generated program, "
            "or returning one, or a tiny init code) / precompile with arbitrary input / plain value call, gas 0..3M, values 0..100000. Oracles per entry: no panic, gas left <= supplied, depth <= 1025 (tracer), "
            "static => nothing journaled but writes of the present value and failure events, failed => nothing survives but one failure event; per case: second un-instrumented run gives identical results, logs and state; "
            "journal == replay of surviving operations (raw and finalised, roots, version root). non-trivial = a revert undid writes or reverts with nesting >= 2; distinct by case digest. "
            "depth: self-recursive contract with 2^40..2^62 gas reaches exactly depth 1025 and terminates. "
            "known-recreate: the pinned minimal input of the listed finding undo-code-after-recreate, run through the same oracles (the matcher must explain exactly it).",
    "level_text": "Grammar-based and raw generated bytecode against six executable oracles, thousands of scenarios per run, plus coverage-guided native fuzzing of raw bytecode with the same oracles inside the target (thorough). "
                  "Exploration: program size (<= ~150 bytes), three contracts and gas <= 3M bound what is reached.",
    "level_note": "Trusted: the recording proxy (it mirrors what the journal is supposed to do), the state dump, the EVM context used for direct execution (block 5, fixed hashes). "
                  "Call depth is counted like the code counts it: 1024 nested frames below the entry frame.",
    "technique": "rapid grammar-based generation with differential / metamorphic oracles + native go fuzzing",
    "assumptions": ["gas is bounded by 3M for arbitrary programs so that termination is observable; unbounded gas is only given to the loop-free recursion program",
                    "the platform's own failure event and writes of an unchanged balance (zero-value transfers) are not state changes"],
    "units": [
        {"name": "known-recreate", "test": "TestC16KnownRecreate", "quick": {"timeout": 300}, "thorough": {"timeout": 300}},
        {"name": "programs", "test": "TestC16Programs", "quick": {"checks": 3000, "shards": 4, "timeout": 900}, "thorough": {"checks": 30000, "shards": 16, "timeout": 3000}},
        {"name": "depth", "test": "TestC16Depth", "quick": {"checks": 10, "timeout": 600}, "thorough": {"checks": 60, "timeout": 1800}},
        {"name": "fuzz", "fuzz": "FuzzBytecode", "test": "FuzzBytecode", "thorough": {"fuzztime": "240s", "workers": 16, "timeout": 900}},
    ],
}

CHECKS["C01"] = {
    "pkg": "./checks/c01",
    "level": "exploration",
    "rule": "generated chain histories on real nodes: world with 1..3 deputies and 6 funded users; 1..5 blocks, each with 0..10 candidate transactions from the transaction grammar (transfers to EOAs / contracts / self / "
            "fresh / special addresses with amounts around vote boundaries, contract creations and calls with grammar bytecode, votes, candidate register / top-up / modify / unregister, asset create / issue / replenish / modify / transfer, "
            "modify-signers, gas-payer transactions, boxes of 1..4 sub transactions, and decoys the miner must discard: foreign signature, overspend, no gas money, gas below intrinsic, unsigned, vote for a non-candidate, box with a failing sub); "
            "miner = the deputy in turn or a later slot. Per block: the assembly is run 3x on the same parent (identical hash), once more with only the packaged transactions (metamorphic: discarded candidates leave no trace), "
            "then stored; a validator inserts the RLP bytes (must accept) and is restarted at a drawn point; full state dump (all addresses and keys named in any change log, roots, version records, raw code hash) equal on both. "
            "At the end a fresh node inserts the whole chain and must accept every block and end in the same state. non-trivial = a block with >= 1 packaged and >= 1 discarded candidate; distinct by history digest. "
            "stable-lag: the same honest chains (2..3 deputies, asset-heavy mix) where the validator receives the confirm packets of a block 1, 2 or many blocks later than the miner: its verdict on every honest block, and the resulting state, "
            "must not depend on its stable height. non-trivial = at least one block was validated while the validator's stable block was behind the miner's. The listed finding C01-asset-tx-needs-stable-asset is matched exactly (see known_findings.json).",
    "level_text": "Differential execution of generated blocks on independently built nodes (miner path vs validator path vs late joiner vs restarted node) plus a metamorphic relation on the candidate list; "
                  "hundreds to thousands of multi-block histories per run. Exploration bounded by history length and the grammar.",
    "level_note": "Trusted: the harness-built header (PrepareHeader minus the wall clock) and the exported BlockAssembler.MineBlock as the honest miner; times anchored at a fixed past epoch so the validator's only clock test is constant-true; "
                  "several simulated nodes share one process (self node key and signature cache are reset on every switch).",
    "technique": "rapid-generated histories with differential (miner/validator/late joiner) and metamorphic oracles",
    "assumptions": ["an honest miner is PrepareHeader + BlockAssembler.MineBlock + saveNewBlock", "map iteration order is sampled by repeating the assembly, not controlled"],
    "units": [
        {"name": "determinism", "test": "TestC01Determinism", "quick": {"checks": 220, "shards": 4, "timeout": 900}, "thorough": {"checks": 3000, "shards": 16, "timeout": 3400}},
        {"name": "stable-lag", "test": "TestC01StableLag", "quick": {"checks": 200, "shards": 4, "timeout": 900}, "thorough": {"checks": 3000, "shards": 12, "timeout": 3400}},
    ],
}

CHECKS["C05"] = {
    "pkg": "./checks/c05",
    "level": "exploration",
    "rule": "conservation: generated chain histories (C01 grammar weighted to value-moving contracts, boxes, candidate deposits, gas-payer transactions), 1..3 deputies, 1..5 blocks; rewards: terms of 8 blocks with a 2 block interim, "
            "10..19 blocks, founder transactions setting the term reward (values 0..999999 LEMO + dust, also inside the reward block, also over the modification limit), candidate registration / unregistration so that deposit refunds fall on reward blocks. "
            "Per block, from the parent state read while the parent is still head and the block state, over every address named in any transaction or change log: sum of balances grows by at most the reference reward "
            "(term reward split by votes, equal split without votes, each share rounded down to whole LEMO) plus the known box surplus computed from the packaged block; it shrinks only if a contract self-destructed in the block and by no more than such contracts could hold; "
            "no negative balance; gasUsed <= gasLimit per tx and sub tx; header gas = sum; a block that packaged nothing changes no balance; single-transfer blocks: every address changes by exactly -amount / +amount / -fee / +fee. "
            "non-trivial = block with a box, a candidate transaction, a contract call/creation, a reward or a self-destruct; distinct by history digest.",
    "level_text": "Invariant checking over generated multi-block histories with an independent ledger computation per block; exploration bounded by the grammar and history length.",
    "level_note": "Trusted: the address universe (every transaction party and every address in a change log, harvested from a trial assembly before the block is mined); the reward table is read back from chain state as configuration; "
                  "burn bound is an upper bound, exactness is only demanded for single-transfer blocks.",
    "technique": "rapid-generated histories checked against a ledger invariant and a reference reward formula",
    "assumptions": ["LEMO held by addresses that never appear in a transaction or change log cannot change", "all generated transactions use one gas price"],
    "units": [
        {"name": "conservation", "test": "TestC05Conservation", "quick": {"checks": 400, "shards": 4, "timeout": 900}, "thorough": {"checks": 3000, "shards": 12, "timeout": 3400}},
        {"name": "rewards", "test": "TestC05Rewards", "quick": {"checks": 100, "shards": 4, "timeout": 900}, "thorough": {"checks": 600, "shards": 12, "timeout": 3400}},
    ],
}

CHECKS["C11"] = {
    "pkg": "./checks/c11",
    "level": "exploration",
    "rule": "generated chain histories weighted to votes, re-votes, candidate register / top-up / unregister and transfers with amounts aimed at multiples of 200 LEMO (the fee decides the side of the boundary), boxes and gas-payer "
            "transactions, several operations on one voter per block; tally: 2..6 blocks; terms: 8-block terms with rewards and deposit refunds, 9..14 blocks. After every block, from that block's account state over every known address: "
            "each registered candidate's votes == floor(deposit/100 LEMO) + sum over accounts voting for it of floor(balance/200 LEMO); unregistered => 0; never negative. "
            "non-trivial = a block in which a voter votes and is touched by another transaction; distinct by history digest.",
    "level_text": "Invariant recomputed from scratch (independent of the incremental bookkeeping in the code) after every generated block; exploration bounded by grammar and history length.",
    "level_note": "Trusted: the address universe contains every voter (all transaction parties and logged addresses); deposits are read from the candidate profile.",
    "technique": "rapid-generated histories checked against a from-scratch recomputation of the tally",
    "assumptions": ["accounts outside the address universe hold no votes"],
    "units": [
        {"name": "tally", "test": "TestC11Tally", "quick": {"checks": 300, "shards": 4, "timeout": 900}, "thorough": {"checks": 4000, "shards": 12, "timeout": 3400}},
        {"name": "terms", "test": "TestC11Terms", "quick": {"checks": 60, "shards": 4, "timeout": 900}, "thorough": {"checks": 800, "shards": 12, "timeout": 3400}},
    ],
}

CHECKS["C12"] = {
    "pkg": "./checks/c12",
    "level": "exploration",
    "rule": "generated chain histories with one deputy (asset transactions need their asset's creation to be stable; the asynchronous asset indexes are drained after every block), 3..9 blocks of 1..7 candidates weighted to "
            "create-asset (3 categories) / issue / replenish / modify (freeze, unfreeze, new keys) / transfer-asset with amounts {0, 1, 7, 100, 1000, -1, -50, 2^255}, by the issuer or a foreign account, to users, contracts, fresh accounts, self and the burn address 0x0, "
            "also inside boxes. After every block, from the account states of parent and block over all known addresses and every asset id named in a change log: recorded supply == sum of holders' equity for every divisible asset; "
            "no negative supply or equity; supply grows by at most what packaged issue/replenish transactions of the issuer mint and not at all without an asset transaction; only the issuer's transactions mint or modify; "
            "an equity decreases only if its holder sent a packaged transfer of exactly that asset id; packaged amounts are positive (issue) / non-negative (transfer); frozen assets do not move. "
            "non-trivial = an asset with >= 2 holders and an adversarial amount offered; distinct by history digest.",
    "level_text": "Invariant and transition checking with an independent asset ledger read through public accessors after every generated block; exploration bounded by grammar and history length.",
    "level_note": "Trusted: the address universe contains every holder; asset ids are harvested from change logs of trial assemblies; a packaged non-contract asset transaction is a successful one (failing ones are discarded by the miner).",
    "technique": "rapid-generated histories checked against ledger invariants and per-block transition rules",
    "assumptions": ["a transfer to the all-zero address destroys the sender's own equity (the statement's burn)", "non-divisible assets count issued tokens, so supply == sum of equity is only demanded for divisible ones"],
    "units": [
        {"name": "assets", "test": "TestC12Assets", "quick": {"checks": 150, "shards": 4, "timeout": 900}, "thorough": {"checks": 2500, "shards": 12, "timeout": 3400}},
    ],
}

CHECKS["C06"] = {
    "pkg": "./checks/c06",
    "level": "exploration",
    "rule": "per case a real chain with a plain account, a 3-signer and a 2-signer multi-signature account established by real modify-signers transactions (weights from {34,50,60,100}); then one transaction "
            "(transfer, vote, contract creation, call, modify-signers) from the plain or the multisig account, self-paid or paid by a plain / multisig gas payer, with sender signatures drawn from: exact authorising set, subset below 100, "
            "one signature repeated (another signer dropped), one signature re-encoded (s -> n-s), foreign key, signed before one of 12 fields was changed, none, signed with the other hash kind; payer signatures: exact, missing, "
            "over other gas terms, foreign, subset. Reference: authorisation by construction (the harness knows which key signed which content; distinct registered signers over the final content with weights >= 100, resp. the account's own key). "
            "Oracle: packaged by the miner path (BlockAssembler.MineBlock) or let through by the validator's TxProcessor.Process => authorised. Class `authorised-but-not-packaged` tracks generator health. "
            "non-trivial = multisig sender, a gas payer, or a tampered field; distinct by description + tx hash.",
    "level_text": "Generated signature sets against a by-construction authorisation reference on real chain state; one-directional (effect => authorised) as the statement is; exploration over the variant grid x weights.",
    "level_note": "Trusted: the bookkeeping of which key signed which content; for reimbursed transactions the sender's signature does not cover the gas terms (by design of that transaction kind).",
    "technique": "rapid-generated signature/multiset variants checked against a reference authorisation predicate",
    "assumptions": ["a plain account is authorised by a signature of its own key over the final content", "validator side is exercised through TxProcessor.Process (ErrTxGasUsedNotEqual counts as let through: the signature check was passed)"],
    "units": [
        {"name": "authorisation", "test": "TestC06Authorisation", "quick": {"checks": 300, "shards": 4, "timeout": 900}, "thorough": {"checks": 5000, "shards": 12, "timeout": 3400}},
    ],
}

CHECKS["C10"] = {
    "pkg": "./checks/c10",
    "level": "exploration",
    "rule": "generated chain histories with candidate list size 2..4 (verif hook), 1..3 genesis deputies, configured deputy count 1..3, six users who can all afford the deposit, terms of 8 blocks with a 2 block interim, 4..18 blocks "
            "weighted to register / unregister / top-up / vote / re-vote / transfers that create ties, sibling fork blocks by another deputy, validator restarts at drawn points (unconfirmed blocks re-delivered). "
            "After every block (fork blocks too) on miner and validator: GetCandidatesTop(block) == all accounts whose profile says candidate in that block's view, sorted by votes desc / address asc, cut to the list size. "
            "Snapshot blocks: deputy nodes == first N of the parent's list with ranks 0..N-1, the list's votes, non-increasing votes, node id from the profile; once stable the deputy manager serves exactly that term. "
            "Restart: the stable block's list is unchanged. Later blocks mined by the elected users' own node keys must be accepted. non-trivial = more registered candidates than list slots and >= 1 unregister; distinct by history digest.",
    "level_text": "Differential against a full sort recomputed from account state after every generated block, on two nodes one of which restarts; exploration bounded by grammar and history length.",
    "level_note": "Trusted: the address universe contains every candidate; the list size hook (store.VerifSetMaxCandidateCount) only changes the constant 20.",
    "technique": "rapid-generated histories checked against a reference full sort (differential), incl. restart and fork variants",
    "assumptions": ["candidates are only accounts that appear in transactions or change logs"],
    "units": [
        {"name": "election", "test": "TestC10Election", "quick": {"checks": 120, "shards": 4, "timeout": 900}, "thorough": {"checks": 2000, "shards": 12, "timeout": 3400}},
    ],
}

CHECKS["C03"] = {
    "pkg": "./checks/c03",
    "level": "exploration",
    "rule": "rapid state machine on one real node (a bystander, or one of the deputies so that it signs confirms itself) with 1..7 deputies, fed by a factory node that mines as any deputy: mine(child of any live block, any rank, first or second round), "
            "deliver(any block, again, before its parent, carrying 0..3 generated confirms in its body), confirm(any block, 1..4 signatures each drawn from: valid by deputy i, the same bytes again, re-encoded (s -> n-s), by an outsider key, "
            "by the block's miner (also re-encoded), random bytes, a deputy's signature for another block; packet with wrong height or unknown hash). Invariants after every step: stable height never decreases; the new stable block is a descendant of the previous one "
            "(harness parent links); the promoted block carries >= ceil(2n/3) distinct deputy signers (header + stored confirms, recovered by the harness and matched to its own key table); blocks by height up to stable are the stable block's ancestor chain and never change; "
            "the head is the stable block or a descendant. non-trivial = >= 1 promotion and (a fork or an adversarial signature / packet); distinct by history digest. "
            "terms: chains of 9..14 blocks with 8-block terms (1..4 genesis deputies, configured deputy count 2..5, candidate registrations and votes, so that the second term usually has another number of deputies); "
            "after every block a confirm packet signed by a generated selection of ALL node keys of the world (deputies of either term, never-elected users, an outsider). A block may only store confirms of deputies of its own term, one per deputy; "
            "a newly stable block carries at least ceil(2n/3) signers of its term; a block whose parent is stable and which carries that many becomes stable. non-trivial = two different term sizes and at least two promotions.",
    "level_text": "Stateful generated histories with history invariants checked after every step; the signer count is recomputed independently from the stored signatures. Exploration bounded by ~30 steps per history.",
    "level_note": "Trusted: the harness's parent links and key table; Ecrecover as a primitive; production term lengths (no term change inside these histories).",
    "technique": "rapid stateful testing with history invariants",
    "assumptions": ["ancestors made stable together with a promoted block are exempt from the signer count, as the statement says"],
    "units": [
        {"name": "finality", "test": "TestC03Finality", "quick": {"checks": 250, "shards": 4, "timeout": 900}, "thorough": {"checks": 4000, "shards": 12, "timeout": 3400}},
        {"name": "terms", "test": "TestC03Terms", "quick": {"checks": 100, "shards": 4, "timeout": 900}, "thorough": {"checks": 2000, "shards": 12, "timeout": 3400}},
    ],
}

CHECKS["C04"] = {
    "pkg": "./checks/c04",
    "level": "exploration",
    "rule": "rapid state machine: a factory node playing any (dishonest) in-turn deputy builds a block tree with chosen transaction lists through the block assembler (which executes and seals but does not ask the replay guard); "
            "payload universe: 6 founder transfers with expirations spread over several lifetime windows, their copies with the equivalent signature encoding (r, n-s, v^1), 3 boxes over pairs of them; "
            "mine(child of any block, any rank, time jump of 0 / 1 / 20 / 58 / 61 / 120 rounds, 0..3 payloads, sometimes the same payload twice), deliver(any block), confirm(any accepted block by all deputies: stable advances and the replay cache is pruned), restart (<= 2). "
            "Reference verdict per delivered block from the statement: parent accepted, every payload (and box sub) inside block.time <= exp <= block.time+1800, no identity (signed content + signer, standalone or as sub) already on the branch or twice in the block, canonical signature. "
            "Two-sided: accepted although invalid (executed twice / outside the window) is a violation, and so is rejected although valid (e.g. executed only on an abandoned fork). non-trivial = a delivered block that replays an identity of its branch; distinct by history digest.",
    "level_text": "Stateful generated block trees with a reference verdict per block computed from identities along the branch; exploration bounded by ~30 steps per history and the payload universe.",
    "level_note": "Trusted: the harness tree (parent links, which payloads each sealed block really contains), identities by construction. Miner-side replay (pool re-adds side-fork transactions; needs the wall-clock mining path) is not covered by this unit.",
    "technique": "rapid stateful testing against a reference verdict (two-sided)",
    "assumptions": ["the block assembler packaging a list without consulting the guard models a dishonest deputy", "times are in-turn by construction, so rejections can only come from parent / replay / window / signature rules"],
    "units": [
        {"name": "replay", "test": "TestC04Replay", "quick": {"checks": 200, "shards": 4, "timeout": 900}, "thorough": {"checks": 3000, "shards": 12, "timeout": 3400}},
    ],
}

CHECKS["C02"] = {
    "pkg": "./checks/c02",
    "level": "exploration",
    "rule": "per case a real chain (2..4 deputies, funding block, 0..3 honest prefix blocks without confirms so forks stay possible), a valid next block X (0..4 generated transactions) on the head or on an older block, "
            "then 1..2 corruptions out of 25 (parent -> unknown / grandparent; miner -> other deputy / outsider; version, tx, log root bit flips; height +-1 / 0 / max; gas limit; gas used +-1; time before the parent / now+2..1000 / later; "
            "signature bit flip / truncation; junk deputy root; extra 1 / 256 / 257 / 1000 bytes; tx dropped / added (valid, expired, too far ahead, other chain, replay of the branch) / duplicated / reordered / gasUsed altered, with or without matching tx root; "
            "change logs dropped; junk confirms; junk deputy nodes) and re-signing by nobody / the original miner / the deputy in turn for the block's time (optionally adopting his miner address) / another deputy / an outsider. "
            "Oracle if the node stores the mutant: parent known, height = parent+1, parent.time <= time <= now+1, |extra| <= 256, the recovered signer is the deputy the slot model puts in turn and the miner address is his, every transaction inside its window, "
            "for this chain and not on the branch or twice, and an honest assembly of (parent, the mutant's own header choices, its transaction list) reproduces the hash. Oracle if it is rejected or ignored: current, stable, HasBlock over all known hashes, "
            "the unconfirmed set, the full account dump at the head and the pool are unchanged. Sanity: X itself is accepted afterwards. non-trivial = a hashed field or the transaction list differs from X; distinct by description digest. "
            "term-change: the same on chains with 8-block terms, 1..3 genesis deputies, configured deputy count 2..5 and candidate registrations, with a prefix of 8..11 blocks so that X is the first block of the new term (whose deputy count usually differs) or a neighbour, in any slot.",
    "level_text": "Mutation-based generated blocks against reference models for every acceptance condition plus a before/after comparison of node state for rejections; exploration over 25 corruptions x 5 signing modes x generated chains.",
    "level_note": "Trusted: the slot model, the honest assembly as reference execution, the snapshot of node state (public API only). Gas limit and the deputy root outside snapshot heights are the miner's free choices (the statement does not constrain them).",
    "technique": "rapid mutation-based generation with reference-model and side-effect oracles",
    "assumptions": ["the validator reads the wall clock only for the not-in-the-future test; chain times are anchored in the past"],
    "units": [
        {"name": "acceptance", "test": "TestC02Acceptance", "quick": {"checks": 350, "shards": 4, "timeout": 900}, "thorough": {"checks": 5000, "shards": 12, "timeout": 3400}},
        {"name": "term-change", "test": "TestC02TermChange", "quick": {"checks": 60, "shards": 4, "timeout": 900}, "thorough": {"checks": 1000, "shards": 12, "timeout": 3400}},
    ],
}

NOT_APPLICABLE = {}
