package c18

import (
	"fmt"
	"sort"
	"strings"
	"sync"
	"sync/atomic"
	"testing"

	"verif/sim"

	"github.com/LemoFoundationLtd/lemochain-core/chain/txpool"
	"github.com/LemoFoundationLtd/lemochain-core/chain/types"
	"github.com/LemoFoundationLtd/lemochain-core/common"
	"pgregory.net/rapid"
)

// Concurrent histories: 3-4 goroutines x 2-4 operations released from a barrier, run under the race detector.
// The observed history must be linearizable with respect to the deterministic part of the pending-set specification
// (no expiry, no deletion of a sub transaction of a pending box, so the specification has exactly one answer per state).

type cop struct {
	kind       string // add, del, get
	u          *utx
	start, end int64
	addOK      bool
	got        []common.Hash
}

type spec struct{ pending map[common.Hash]*utx }

func (s *spec) clone() *spec {
	c := &spec{pending: make(map[common.Hash]*utx, len(s.pending))}
	for k, v := range s.pending {
		c.pending[k] = v
	}
	return c
}

func (s *spec) conflicts(u *utx) bool {
	hashes := map[common.Hash]bool{u.hash: true}
	for _, x := range u.subs {
		hashes[x.hash] = true
	}
	for h, p := range s.pending {
		if hashes[h] {
			return true
		}
		for _, x := range p.subs {
			if hashes[x.hash] {
				return true
			}
		}
	}
	return false
}

// apply returns false if the recorded result of op cannot happen in state s.
func (s *spec) apply(o *cop) bool {
	switch o.kind {
	case "add":
		want := !s.conflicts(o.u)
		if want != o.addOK {
			return false
		}
		if want {
			s.pending[o.u.hash] = o.u
		}
	case "del":
		delete(s.pending, o.u.hash)
		for _, x := range o.u.subs {
			delete(s.pending, x.hash)
		}
	case "get":
		if len(o.got) != len(s.pending) {
			return false
		}
		for _, h := range o.got {
			if s.pending[h] == nil {
				return false
			}
		}
	}
	return true
}

func (s *spec) key() string {
	ks := make([]string, 0, len(s.pending))
	for h := range s.pending {
		ks = append(ks, h.Hex()[:10])
	}
	sort.Strings(ks)
	return strings.Join(ks, ",")
}

func linearizable(ops []*cop) bool {
	n := len(ops)
	memo := map[string]bool{}
	var dfs func(done uint32, s *spec) bool
	dfs = func(done uint32, s *spec) bool {
		if done == (1<<uint(n))-1 {
			return true
		}
		k := fmt.Sprintf("%d|%s", done, s.key())
		if memo[k] {
			return false
		}
		for i, o := range ops {
			if done&(1<<uint(i)) != 0 {
				continue
			}
			// o may be next only if no other pending op finished before o started
			ok := true
			for j, p := range ops {
				if j != i && done&(1<<uint(j)) == 0 && p.end < o.start {
					ok = false
					break
				}
			}
			if !ok {
				continue
			}
			ns := s.clone()
			if ns.apply(o) && dfs(done|1<<uint(i), ns) {
				return true
			}
		}
		memo[k] = true
		return false
	}
	return dfs(0, &spec{pending: map[common.Hash]*utx{}})
}

func TestC18Concurrent(t *testing.T) {
	rapid.Check(t, func(rt *rapid.T) {
		var plain, boxes []*utx
		np := rapid.IntRange(4, 6).Draw(rt, "nplain")
		for i := 0; i < np; i++ {
			plain = append(plain, plainTx(fmt.Sprintf("p%d", i), 1000))
		}
		// disjoint boxes over p0 / p1; p0 and p1 are never deleted on their own and no two boxes share a sub transaction
		// (both would go through the documented quirk, which has more than one legal outcome; the sequential unit covers it)
		boxes = append(boxes, boxTx("boxA[p0]", 1000, []*utx{plain[0]}), boxTx("boxB[p1 p2]", 1000, []*utx{plain[1], plain[2]}))
		univ := append(append([]*utx{}, plain...), boxes...)
		deletable := append(append([]*utx{}, plain[3:]...), boxes...)

		pool := txpool.NewTxPool()
		// a generated prefix applied sequentially puts the pool into an interesting state (and past the first capacity doubling sometimes)
		pre := &spec{pending: map[common.Hash]*utx{}}
		var prefix []*cop
		if rapid.Bool().Draw(rt, "grow") {
			var batch types.Transactions
			for i := 0; i < 130; i++ {
				u := plainTx(fmt.Sprintf("f%d", i), 1000)
				univ = append(univ, u)
				batch = append(batch, u.tx)
				pre.pending[u.hash] = u
			}
			pool.AddTxs(batch)
		}
		for i, n := 0, rapid.IntRange(0, 3).Draw(rt, "nprefix"); i < n; i++ {
			u := univ[rapid.IntRange(0, np+1).Draw(rt, "pretx")]
			o := &cop{kind: "add", u: u, addOK: pool.AddTx(u.tx) == nil}
			if !pre.apply(o) {
				rt.Fatalf("sequential prefix already disagrees with the specification on add(%s)=%v", u.name, o.addOK)
			}
			prefix = append(prefix, o)
		}

		nthreads := rapid.IntRange(2, 4).Draw(rt, "threads")
		plan := make([][]*cop, nthreads)
		total := 0
		for g := range plan {
			for i, n := 0, rapid.IntRange(1, 3).Draw(rt, "nops"); i < n; i++ {
				switch rapid.IntRange(0, 3).Draw(rt, "kind") {
				case 0, 1:
					plan[g] = append(plan[g], &cop{kind: "add", u: univ[rapid.IntRange(0, np+1).Draw(rt, "tx")]})
				case 2:
					plan[g] = append(plan[g], &cop{kind: "del", u: deletable[rapid.IntRange(0, len(deletable)-1).Draw(rt, "dtx")]})
				default:
					plan[g] = append(plan[g], &cop{kind: "get"})
				}
				total++
			}
		}
		var clock int64
		var wg sync.WaitGroup
		barrier := make(chan struct{})
		for g := range plan {
			wg.Add(1)
			go func(list []*cop) {
				defer wg.Done()
				<-barrier
				for _, o := range list {
					o.start = atomic.AddInt64(&clock, 1)
					switch o.kind {
					case "add":
						o.addOK = pool.AddTx(o.u.tx) == nil
					case "del":
						pool.DelTxs(types.Transactions{o.u.tx})
					case "get":
						for _, tx := range pool.GetTxs(50, 1000000) {
							o.got = append(o.got, tx.Hash())
						}
					}
					o.end = atomic.AddInt64(&clock, 1)
				}
			}(plan[g])
		}
		close(barrier)
		wg.Wait()

		// prefix ops happen before everything else
		var all []*cop
		for i, o := range prefix {
			o.start, o.end = int64(-100+2*i), int64(-99+2*i)
			all = append(all, o)
		}
		fillerCount := len(pre.pending) - countNamed(pre.pending)
		for _, list := range plan {
			for _, o := range list {
				if o.kind == "get" { // fillers are part of the state: account for them by removing them from the observation
					kept := o.got[:0]
					nf := 0
					for _, h := range o.got {
						if isFiller(univ, h) {
							nf++
						} else {
							kept = append(kept, h)
						}
					}
					if nf != fillerCount {
						rt.Fatalf("a concurrent selection saw %d of the %d untouched filler transactions", nf, fillerCount)
					}
					o.got = kept
				}
				all = append(all, o)
			}
		}
		if !linearizable(all) {
			rt.Fatalf("history is not linearizable:\n%s", render(all))
		}
		overlap := false
		for _, list := range plan {
			for _, o := range list {
				if o.u != nil && (len(o.u.subs) > 0 || o.u == plain[0] || o.u == plain[1] || o.u == plain[2]) {
					overlap = true
				}
			}
		}
		sim.Case("concurrent", sim.HashOf(render(all)), overlap && total >= 4, []string{fmt.Sprintf("threads%d", nthreads), fmt.Sprintf("ops%d", total)}, func() interface{} { return render(all) })
	})
}

func countNamed(p map[common.Hash]*utx) int {
	n := 0
	for _, u := range p {
		if u.name[0] != 'f' {
			n++
		}
	}
	return n
}

func isFiller(univ []*utx, h common.Hash) bool {
	for _, u := range univ {
		if u.hash == h {
			return u.name[0] == 'f'
		}
	}
	return false
}

func render(ops []*cop) string {
	var sb strings.Builder
	for _, o := range ops {
		name := ""
		if o.u != nil {
			name = o.u.name
		}
		fmt.Fprintf(&sb, "[%d,%d] %s(%s)", o.start, o.end, o.kind, name)
		if o.kind == "add" {
			fmt.Fprintf(&sb, "=%v", o.addOK)
		}
		if o.kind == "get" {
			fmt.Fprintf(&sb, "=%d txs", len(o.got))
		}
		sb.WriteString("\n")
	}
	return sb.String()
}

var _ = sim.Quiet
