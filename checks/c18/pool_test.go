// C18 — the transaction pool behaves like a set of pending transactions.
package c18

import (
	"fmt"
	"math/big"
	"os"
	"sort"
	"testing"

	"verif/sim"

	"github.com/LemoFoundationLtd/lemochain-core/chain/params"
	"github.com/LemoFoundationLtd/lemochain-core/chain/txpool"
	"github.com/LemoFoundationLtd/lemochain-core/chain/types"
	"github.com/LemoFoundationLtd/lemochain-core/common"
	"pgregory.net/rapid"
)

func TestMain(m *testing.M) {
	sim.Quiet()
	code := m.Run()
	os.RemoveAll(sim.TmpRoot())
	os.Exit(code)
}

// ---- universe ---------------------------------------------------------------------------------------------------

type utx struct {
	name string
	tx   *types.Transaction
	hash common.Hash
	exp  uint64
	subs []*utx // non-nil for boxes
}

func (u *utx) expiredAt(t uint32) bool {
	if u.exp < uint64(t) {
		return true
	}
	for _, s := range u.subs {
		if s.exp < uint64(t) {
			return true
		}
	}
	return false
}

var from = common.HexToAddress("0x0107134b9cdd7d89f83efa6175f9b3552f29094c")

func plainTx(name string, exp uint64) *utx {
	to := common.HexToAddress("0x02")
	tx := types.NewTransaction(from, to, big.NewInt(1), 21000, big.NewInt(1), nil, params.OrdinaryTx, sim.ChainID, exp, "", name)
	return &utx{name: name, tx: tx, hash: tx.Hash(), exp: exp}
}

func boxTx(name string, exp uint64, subs []*utx) *utx {
	list := make(types.Transactions, len(subs))
	for i, s := range subs {
		list[i] = s.tx
	}
	data, err := types.MarshalBoxData(list)
	if err != nil {
		panic(err)
	}
	tx := types.NoReceiverTransaction(from, big.NewInt(0), 100000, big.NewInt(1), data, params.BoxTx, sim.ChainID, exp, "", name)
	u := &utx{name: name, tx: tx, hash: tx.Hash(), exp: exp, subs: subs}
	// the sub transactions the pool will see are the ones it decodes from the box payload: make sure they hash alike
	box, err := types.GetBox(tx.Data())
	if err != nil || len(box.SubTxList) != len(subs) {
		panic("box payload")
	}
	for i, s := range box.SubTxList {
		if s.Hash() != subs[i].hash {
			panic("sub tx hash changes inside the box payload")
		}
	}
	return u
}

// ---- model ------------------------------------------------------------------------------------------------------

type state int

const (
	absent    state = iota
	pending         // accepted, not deleted, not seen expired
	maybeGone       // was pending, and a selection at a time past its expiry may have dropped it
)

type model struct {
	st    map[common.Hash]state
	byH   map[common.Hash]*utx
	stale map[common.Hash]bool // index entries without a transaction: left behind when a sub tx deletion removed a pending box (documented quirk)
	order []common.Hash        // insertion order of pending txs
}

func newModel(univ []*utx) *model {
	m := &model{st: map[common.Hash]state{}, byH: map[common.Hash]*utx{}, stale: map[common.Hash]bool{}}
	for _, u := range univ {
		m.byH[u.hash] = u
	}
	return m
}

// holder returns the pending box which contains hash h as a sub transaction.
func (m *model) holder(h common.Hash, states ...state) *utx {
	for bh, st := range m.st {
		ok := false
		for _, s := range states {
			if st == s {
				ok = true
			}
		}
		if !ok {
			continue
		}
		for _, s := range m.byH[bh].subs {
			if s.hash == h {
				return m.byH[bh]
			}
		}
	}
	return nil
}

// conflict: adding u would break "set" or "mutually exclusive": u itself pending, u is a sub of a pending box, or u is a
// box one of whose subs is pending on its own or inside another pending box. definite=false if only may-be-gone
// transactions are in the way (then either answer of the pool is right).
func (m *model) conflict(u *utx) (definite bool, possible bool) {
	check := func(h common.Hash) {
		switch m.st[h] {
		case pending:
			definite = true
		case maybeGone:
			possible = true
		}
		if b := m.holder(h, pending); b != nil {
			definite = true
		}
		if b := m.holder(h, maybeGone); b != nil {
			possible = true
		}
		if m.stale[h] {
			possible = true
		}
	}
	check(u.hash)
	for _, s := range u.subs {
		check(s.hash)
	}
	return definite, possible || definite
}

func (m *model) setPending(u *utx) {
	if m.st[u.hash] != pending {
		m.order = append(m.order, u.hash)
	}
	m.st[u.hash] = pending
	delete(m.stale, u.hash)
}

func (m *model) drop(h common.Hash) {
	m.st[h] = absent
	for i, x := range m.order {
		if x == h {
			m.order = append(m.order[:i:i], m.order[i+1:]...)
			break
		}
	}
}

// del: the pool is told that u is on the chain now.
func (m *model) del(u *utx) {
	removeBoxHolding := func(h common.Hash) {
		for _, st := range []state{pending, maybeGone} {
			if b := m.holder(h, st); b != nil {
				// the box can never be packaged again: it leaves the pool; its other index entries stay behind (quirk)
				// (for a may-be-gone box the entries may or may not exist: `stale` only ever makes an answer optional)
				m.stale[b.hash] = true
				for _, s := range b.subs {
					if s.hash != h {
						m.stale[s.hash] = true
					}
				}
				m.drop(b.hash)
			}
		}
	}
	// (a box holding h can only be in the pool if h itself is not, so doing both is exact)
	m.drop(u.hash)
	removeBoxHolding(u.hash)
	delete(m.stale, u.hash)
	for _, s := range u.subs {
		// the sub transactions are executed inside the box: they must leave the pool too
		m.drop(s.hash)
		removeBoxHolding(s.hash)
		delete(m.stale, s.hash)
	}
}

// ---- the state machine ------------------------------------------------------------------------------------------

func buildUniverse(rt *rapid.T) (plain []*utx, boxes []*utx, all []*utx) {
	exps := []uint64{100, 200, 300, 1000}
	np := rapid.IntRange(4, 10).Draw(rt, "nplain")
	for i := 0; i < np; i++ {
		plain = append(plain, plainTx(fmt.Sprintf("p%d", i), rapid.SampledFrom(exps).Draw(rt, "exp")))
	}
	nb := rapid.IntRange(1, 4).Draw(rt, "nboxes")
	for i := 0; i < nb; i++ {
		k := rapid.IntRange(1, 3).Draw(rt, "nsubs")
		idx := rapid.Permutation(indices(len(plain))).Draw(rt, "subidx")[:k]
		var subs []*utx
		minExp := uint64(1 << 62)
		for _, j := range idx {
			subs = append(subs, plain[j])
			if plain[j].exp < minExp {
				minExp = plain[j].exp
			}
		}
		// a valid box expires no later than its sub transactions
		boxes = append(boxes, boxTx(fmt.Sprintf("box%d%v", i, names(subs)), minExp, subs))
	}
	all = append(append([]*utx{}, plain...), boxes...)
	return
}

func indices(n int) []int {
	r := make([]int, n)
	for i := range r {
		r[i] = i
	}
	return r
}

func names(us []*utx) []string {
	var r []string
	for _, u := range us {
		r = append(r, u.name)
	}
	return r
}

func TestC18Sequential(t *testing.T) {
	rapid.Check(t, func(rt *rapid.T) {
		_, boxes, univ := buildUniverse(rt)
		pool := txpool.NewTxPool()
		m := newModel(univ)
		var ops []string
		fillers := 0
		stats := map[string]bool{}
		register := func(u *utx) { m.byH[u.hash] = u }

		add := func(t *rapid.T, u *utx, err error) {
			definite, possible := m.conflict(u)
			if err == nil {
				if definite {
					t.Fatalf("AddTx(%s) accepted although the pool already holds it, its box or one of its sub transactions\nops: %v", u.name, ops)
				}
				m.setPending(u)
			} else if !possible {
				t.Fatalf("AddTx(%s) refused (%v) although nothing in the pool conflicts with it\nops: %v", u.name, err, ops)
			}
		}

		checkSelection := func(t *rapid.T, when uint32, size int, got types.Transactions) {
			seen := map[common.Hash]bool{}
			if len(got) > size {
				t.Fatalf("GetTxs(%d, %d) returned %d transactions\nops: %v", when, size, len(got), ops)
			}
			for _, tx := range got {
				h := tx.Hash()
				u := m.byH[h]
				if u == nil {
					t.Fatalf("GetTxs returned a transaction that was never added\nops: %v", ops)
				}
				if seen[h] {
					t.Fatalf("GetTxs(%d, %d) hands out %s twice in one selection\nops: %v", when, size, u.name, ops)
				}
				seen[h] = true
				if m.st[h] == absent {
					t.Fatalf("GetTxs(%d, %d) hands out %s which is not pending (deleted or never accepted)\nops: %v", when, size, u.name, ops)
				}
				if u.expiredAt(when) {
					t.Fatalf("GetTxs(%d, %d) hands out %s which expired at %d\nops: %v", when, size, u.name, u.exp, ops)
				}
			}
			// box and sub transactions mutually exclusive within the selection
			for _, tx := range got {
				for _, s := range m.byH[tx.Hash()].subs {
					if seen[s.hash] {
						t.Fatalf("GetTxs hands out box %s together with its sub transaction %s\nops: %v", m.byH[tx.Hash()].name, s.name, ops)
					}
				}
			}
			for i, a := range got {
				for _, b := range got[i+1:] {
					for _, sa := range m.byH[a.Hash()].subs {
						for _, sb := range m.byH[b.Hash()].subs {
							if sa.hash == sb.hash {
								t.Fatalf("GetTxs hands out two boxes sharing sub transaction %s\nops: %v", sa.name, ops)
							}
						}
					}
				}
			}
			// nothing accepted is lost: every pending, unexpired transaction is handed out when the selection is not cut
			// by `size`; a cut selection must at least be full
			want := 0
			for h, st := range m.st {
				if st == pending && !m.byH[h].expiredAt(when) {
					want++
					if len(got) < size && !seen[h] {
						t.Fatalf("GetTxs(%d, %d) lost %s: accepted, not deleted, not expired, but not handed out (%d returned)\nops: %v", when, size, m.byH[h].name, len(got), ops)
					}
				}
			}
			if len(got) < size && len(got) < want {
				t.Fatalf("GetTxs(%d, %d) returned %d transactions although %d are pending and unexpired\nops: %v", when, size, len(got), want, ops)
			}
			// expired ones the scan may have passed are may-be-gone from now on
			for _, h := range append([]common.Hash{}, m.order...) {
				if m.st[h] == pending && m.byH[h].expiredAt(when) {
					m.st[h] = maybeGone
					stats["expiry"] = true
				}
			}
		}

		rt.Repeat(map[string]func(*rapid.T){
			"addTx": func(t *rapid.T) {
				u := univ[rapid.IntRange(0, len(univ)-1).Draw(t, "tx")]
				ops = append(ops, "add("+u.name+")")
				add(t, u, pool.AddTx(u.tx))
				if len(u.subs) > 0 {
					stats["box"] = true
				}
			},
			"addTxs": func(t *rapid.T) {
				n := rapid.IntRange(1, 4).Draw(t, "n")
				var batch types.Transactions
				var us []*utx
				for i := 0; i < n; i++ {
					u := univ[rapid.IntRange(0, len(univ)-1).Draw(t, "tx")]
					us = append(us, u)
					batch = append(batch, u.tx)
				}
				ops = append(ops, fmt.Sprintf("addTxs(%v)", names(us)))
				// outcome per element is not reported; replay the batch on a shadow of the model to find the expected count
				before := pool.AddTxs(batch)
				okMin, okMax := 0, 0
				for _, u := range us {
					definite, possible := m.conflict(u)
					if !possible {
						okMin++
						okMax++
						m.setPending(u)
					} else if !definite {
						okMax++
						// undecidable from the count alone unless the batch has one element
						if n == 1 && before == 1 {
							m.setPending(u)
						} else if m.st[u.hash] == absent {
							m.st[u.hash] = maybeGone // may have been accepted
							m.order = append(m.order, u.hash)
						}
					}
				}
				if before < okMin || before > okMax {
					t.Fatalf("AddTxs accepted %d, model expects %d..%d\nops: %v", before, okMin, okMax, ops)
				}
			},
			"fill": func(t *rapid.T) { // capacity growth: the pool starts with 128 slots and doubles
				if fillers > 300 {
					t.Skip("filled enough")
				}
				n := rapid.IntRange(60, 140).Draw(t, "nfill")
				var batch types.Transactions
				for i := 0; i < n; i++ {
					fillers++
					u := plainTx(fmt.Sprintf("f%d", fillers), 2000)
					register(u)
					batch = append(batch, u.tx)
					m.setPending(u)
				}
				ops = append(ops, fmt.Sprintf("fill(%d)", n))
				if got := pool.AddTxs(batch); got != n {
					t.Fatalf("AddTxs of %d fresh transactions accepted %d\nops: %v", n, got, ops)
				}
				if fillers > 128 {
					stats["growth"] = true
				}
			},
			"getAll": func(t *rapid.T) {
				when := rapid.SampledFrom([]uint32{50, 100, 101, 200, 201, 300, 301, 1001}).Draw(t, "time")
				ops = append(ops, fmt.Sprintf("get(%d, all)", when))
				checkSelection(t, when, 100000, pool.GetTxs(when, 100000))
			},
			"getSome": func(t *rapid.T) {
				when := rapid.SampledFrom([]uint32{50, 101, 201, 301}).Draw(t, "time")
				size := rapid.IntRange(0, 5).Draw(t, "size")
				ops = append(ops, fmt.Sprintf("get(%d, %d)", when, size))
				checkSelection(t, when, size, pool.GetTxs(when, size))
			},
			"delTxs": func(t *rapid.T) {
				n := rapid.IntRange(1, 3).Draw(t, "n")
				var batch types.Transactions
				var us []*utx
				for i := 0; i < n; i++ {
					u := univ[rapid.IntRange(0, len(univ)-1).Draw(t, "tx")]
					us = append(us, u)
					batch = append(batch, u.tx)
				}
				ops = append(ops, fmt.Sprintf("del(%v)", names(us)))
				pool.DelTxs(batch)
				for _, u := range us {
					m.del(u)
					if len(u.subs) > 0 || m.holder(u.hash, pending) != nil {
						stats["box-sub-overlap"] = true
					}
				}
			},
			"delFillers": func(t *rapid.T) { // what a mined block does: remove a long run of pending transactions
				var batch types.Transactions
				for _, h := range append([]common.Hash{}, m.order...) {
					u := m.byH[h]
					if len(u.name) > 0 && u.name[0] == 'f' && rapid.IntRange(0, 3).Draw(t, "keep") != 0 {
						batch = append(batch, u.tx)
						m.del(u)
					}
				}
				if len(batch) == 0 {
					t.Skip("no fillers")
				}
				ops = append(ops, fmt.Sprintf("delFillers(%d)", len(batch)))
				pool.DelTxs(batch)
			},
			"": func(t *rapid.T) {
				// IsEmpty must not claim emptiness while something is pending
				npend := 0
				for _, st := range m.st {
					if st == pending {
						npend++
					}
				}
				if npend > 0 && pool.IsEmpty() {
					t.Fatalf("IsEmpty() although %d transactions are pending\nops: %v", npend, ops)
				}
			},
		})
		// final full selection at an early time: everything still pending must come out
		checkSelection(rt, 50, 1000000, pool.GetTxs(50, 1000000))
		_ = boxes
		nontrivial := stats["box-sub-overlap"] || stats["expiry"] || stats["growth"]
		var cls []string
		for k := range stats {
			cls = append(cls, k)
		}
		sort.Strings(cls)
		sim.Case("sequential", sim.HashOf(ops), nontrivial, cls, func() interface{} { return ops })
	})
}
