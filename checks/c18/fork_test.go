// C18 — unit "forkswitch": the pool of a real node across fork switches of the real engine. Two forks grow from a common
// ancestor; their blocks carry overlapping selections from one universe of transactions, all of which the node's pool holds.
// Whenever the node's head moves to a block that is no descendant of the old head, the pool must hold every transaction
// of the abandoned fork that is not on the new one, and none that is on the new one.
package c18

import (
	"fmt"
	"strings"
	"testing"

	"verif/sim"

	"github.com/LemoFoundationLtd/lemochain-core/chain/types"
	"github.com/LemoFoundationLtd/lemochain-core/common"
	"pgregory.net/rapid"
)

type fnode struct {
	b      *types.Block
	parent *fnode
	name   string
	txs    []int
}

func (n *fnode) branchTxs(stop *fnode) map[int]bool {
	res := map[int]bool{}
	for x := n; x != nil && x != stop; x = x.parent {
		for _, i := range x.txs {
			res[i] = true
		}
	}
	return res
}

func commonAncestor(a, b *fnode) *fnode {
	seen := map[*fnode]bool{}
	for x := a; x != nil; x = x.parent {
		seen[x] = true
	}
	for x := b; x != nil; x = x.parent {
		if seen[x] {
			return x
		}
	}
	return nil
}

func TestC18ForkSwitch(t *testing.T) {
	rapid.Check(t, func(rt *rapid.T) {
		sim.ResetGlobals()
		d := rapid.IntRange(2, 4).Draw(rt, "deputies")
		w := sim.NewWorld("w", d, 4)
		f := sim.NewNode(w, w.Deputies[0], 17)
		defer f.Destroy()
		n := sim.NewNode(w, nil, 17)
		defer n.Destroy()
		// the universe: transfers that stay valid on every branch and for the whole case
		ntx := rapid.IntRange(3, 8).Draw(rt, "universe")
		univ := make([]*types.Transaction, ntx)
		idx := map[common.Hash]int{}
		for i := range univ {
			univ[i] = sim.Transfer(w.Founder, w.Users[i%4].Addr, sim.Lemo(int64(i+1)), uint64(sim.T0)+1700)
			idx[univ[i].Hash()] = i
		}
		root := &fnode{b: f.Genesis, name: "G"}
		nodes := []*fnode{root}
		byHash := map[common.Hash]*fnode{f.Genesis.Hash(): root}
		var hist []string
		grow := func(parent *fnode, name string) *fnode {
			h := parent.b.Height() + 1
			cnt := f.DM.GetDeputiesCount(h)
			rank := rapid.IntRange(0, cnt-1).Draw(rt, "rank")
			when := f.TimeFor(parent.b, rank, rapid.IntRange(0, 1).Draw(rt, "loops"), uint32(rapid.IntRange(0, 8).Draw(rt, "off")))
			on := parent.branchTxs(nil)
			var pick []int
			var txs types.Transactions
			for i := range univ {
				if !on[i] && rapid.IntRange(0, 2).Draw(rt, "include") == 0 {
					pick = append(pick, i)
					txs = append(txs, univ[i])
				}
			}
			b, _, err := f.MineAs(f.DeputyAt(h, rank), parent.b, when, txs)
			if err != nil {
				return nil
			}
			if _, dup := byHash[b.Hash()]; dup {
				return nil
			}
			if len(b.Txs) != len(txs) {
				rt.Fatalf("harness: the factory packaged %d of %d transactions", len(b.Txs), len(txs))
			}
			nd := &fnode{b: b, parent: parent, name: name, txs: pick}
			nodes = append(nodes, nd)
			byHash[b.Hash()] = nd
			return nd
		}
		// two (sometimes three) forks from the genesis or from a common first block
		base := root
		if rapid.Bool().Draw(rt, "commonFirst") {
			if x := grow(root, "p1"); x != nil {
				base = x
			}
		}
		var order []*fnode
		if base != root {
			order = append(order, base)
		}
		tips := []*fnode{base, base}
		if rapid.IntRange(0, 3).Draw(rt, "threeForks") == 0 {
			tips = append(tips, base)
		}
		for step, total := 0, rapid.IntRange(3, 8).Draw(rt, "blocks"); step < total; step++ {
			k := rapid.IntRange(0, len(tips)-1).Draw(rt, "fork")
			if x := grow(tips[k], fmt.Sprintf("%c%d", 'a'+k, tips[k].b.Height()+1)); x != nil {
				tips[k] = x
				order = append(order, x)
			}
		}
		// the node knows the whole universe as pending
		n.Pool.AddTxs(univ)
		poolSet := func() map[int]int {
			res := map[int]int{}
			for _, tx := range n.Pool.GetTxs(sim.T0, 100000) {
				if i, ok := idx[tx.Hash()]; ok {
					res[i]++
				} else {
					res[-1]++
				}
			}
			return res
		}
		head := root
		switches := 0
		sharedOnSwitch := false
		for _, nd := range order {
			if err := n.Insert(nd.b); err != nil {
				rt.Fatalf("harness: the node rejects block %s: %v\nhistory: %s", nd.name, err, strings.Join(hist, " "))
			}
			cur := byHash[n.Current().Hash()]
			hist = append(hist, fmt.Sprintf("%s%v->head=%s", nd.name, nd.txs, cur.name))
			if cur != head {
				// a switch: the new head is no descendant of the old one
				isDesc := false
				for x := cur; x != nil; x = x.parent {
					if x == head {
						isDesc = true
					}
				}
				if !isDesc {
					switches++
					ca := commonAncestor(head, cur)
					oldTxs, newTxs := head.branchTxs(ca), cur.branchTxs(ca)
					got := poolSet()
					for i := range oldTxs {
						if newTxs[i] {
							sharedOnSwitch = true
						}
						if !newTxs[i] && !cur.branchTxs(nil)[i] && got[i] != 1 {
							rt.Fatalf("after the switch from %s to %s transaction t%d of the abandoned fork, which is not on the new fork, is %d times in the pool\nhistory: %s", head.name, cur.name, i, got[i], strings.Join(hist, " "))
						}
					}
					for i := range cur.branchTxs(nil) {
						if got[i] != 0 {
							rt.Fatalf("after the switch from %s to %s transaction t%d, which is on the new current fork, is still pending in the pool (%d times)\nhistory: %s", head.name, cur.name, i, got[i], strings.Join(hist, " "))
						}
					}
				}
				head = cur
			}
			for i, c := range poolSet() {
				if c > 1 {
					rt.Fatalf("transaction t%d is handed out %d times by one selection\nhistory: %s", i, c, strings.Join(hist, " "))
				}
			}
		}
		sim.Case("forkswitch", sim.HashOf(strings.Join(hist, " ")), switches > 0, []string{fmt.Sprintf("switches%d", min(switches, 3)), fmt.Sprintf("shared-tx-on-switch=%v", sharedOnSwitch), fmt.Sprintf("deputies%d", d)}, func() interface{} { return strings.Join(hist, " ") })
	})
}
