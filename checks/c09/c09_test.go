// C09 — per-block state views are isolated across forks and pruned exactly when stable.
//
// Store-level state machine (no consensus): SetBlock under any live block, account writes through the block's
// AccountTrieDB (once per block and address, before the block has children: the callers' protocol, Manager.Save runs
// right after SetBlock), reads through any live block (which populate the in-place read cache), SetStableBlock on any
// live block, restart. Oracle: a tree model with per-block write maps and the persisted map.
package c09

import (
	"fmt"
	"math/big"
	"os"
	"sort"
	"testing"

	"verif/sim"

	"github.com/LemoFoundationLtd/lemochain-core/chain/types"
	"github.com/LemoFoundationLtd/lemochain-core/common"
	"github.com/LemoFoundationLtd/lemochain-core/store"
	"pgregory.net/rapid"
)

func TestMain(m *testing.M) {
	sim.Quiet()
	code := m.Run()
	os.RemoveAll(sim.TmpRoot())
	os.Exit(code)
}

type mblock struct {
	id       int
	parent   *mblock
	height   uint32
	hash     common.Hash
	block    *types.Block
	writes   map[common.Address]int64
	children []*mblock
}

func (b *mblock) isDescendantOf(a *mblock) bool {
	for x := b.parent; x != nil; x = x.parent {
		if x == a {
			return true
		}
	}
	return false
}

// addresses: 3 symbols at first / middle / last byte, so Patricia splits and shared prefixes are the norm
func genAddr() *rapid.Generator[common.Address] {
	return rapid.Custom(func(t *rapid.T) common.Address {
		var a common.Address
		// 7 symbols with 4 different first and 4 different second hex digits, so that a branching node can get a
		// third / fourth child before, between and behind the existing ones
		sym := []byte{0x00, 0x01, 0x10, 0x11, 0x20, 0xab, 0xff}
		a[0] = rapid.SampledFrom(sym).Draw(t, "a0")
		a[9] = rapid.SampledFrom(sym).Draw(t, "a9")
		a[19] = rapid.SampledFrom(sym).Draw(t, "a19")
		return a
	})
}

// pool: the addresses of one case. Drawn from the wide alphabet, but few, so that the same address is written in
// several blocks and read through several views.
var pool []common.Address

func poolAddr() *rapid.Generator[common.Address] {
	return rapid.Custom(func(t *rapid.T) common.Address {
		if rapid.IntRange(0, 9).Draw(t, "fresh") == 0 {
			return genAddr().Draw(t, "freshAddr")
		}
		return pool[rapid.IntRange(0, len(pool)-1).Draw(t, "poolIdx")]
	})
}

type machine struct {
	dir       string
	db        *store.ChainDatabase
	stable    *mblock
	persisted map[common.Address]int64
	live      map[int]*mblock // unconfirmed blocks
	nextID    int
	nextVal   int64
	ops       []string
	stats     map[string]int
}

func (m *machine) newBlock(parent *mblock) *mblock {
	m.nextID++
	b := &mblock{id: m.nextID, parent: parent, writes: map[common.Address]int64{}}
	h := &types.Header{Height: 0, Time: uint32(m.nextID), Extra: fmt.Sprintf("b%d", m.nextID)}
	if parent != nil {
		h.ParentHash = parent.hash
		h.Height = parent.height + 1
	}
	b.height = h.Height
	b.block = &types.Block{Header: h}
	b.hash = b.block.Hash()
	return b
}

// view is the model: nearest ancestor-or-self write, else the stable (persisted) value.
func (m *machine) view(b *mblock, a common.Address) (int64, bool) {
	for x := b; x != nil && x != m.stable; x = x.parent {
		if v, ok := x.writes[a]; ok {
			return v, true
		}
	}
	v, ok := m.persisted[a]
	return v, ok
}

func (m *machine) liveSorted() []*mblock {
	res := make([]*mblock, 0, len(m.live))
	for _, b := range m.live {
		res = append(res, b)
	}
	sort.Slice(res, func(i, j int) bool { return res[i].id < res[j].id })
	return res
}

func (m *machine) readThrough(t *rapid.T, b *mblock, a common.Address, what string) {
	adb, err := m.db.GetActDatabase(b.hash)
	if err != nil {
		t.Fatalf("%s: GetActDatabase(b%d): %v\nops: %v", what, b.id, err, m.ops)
	}
	got, err := adb.Get(a)
	want, ok := m.view(b, a)
	if !ok {
		if err == nil && got != nil {
			t.Fatalf("%s: view of b%d has %s = %v, model says it was never written\nops: %v", what, b.id, a.Hex(), got.Balance, m.ops)
		}
		return
	}
	if err != nil || got == nil {
		t.Fatalf("%s: view of b%d lost %s (model %d): %v\nops: %v", what, b.id, a.Hex(), want, err, m.ops)
	}
	if got.Balance.Int64() != want {
		t.Fatalf("%s: view of b%d reads %s = %d, model says %d\nops: %v", what, b.id, a.Hex(), got.Balance.Int64(), want, m.ops)
	}
}

func (m *machine) allAddrs() []common.Address {
	set := map[common.Address]bool{}
	for a := range m.persisted {
		set[a] = true
	}
	for _, b := range m.live {
		for a := range b.writes {
			set[a] = true
		}
	}
	res := make([]common.Address, 0, len(set))
	for a := range set {
		res = append(res, a)
	}
	sort.Slice(res, func(i, j int) bool { return string(res[i][:]) < string(res[j][:]) })
	return res
}

func (m *machine) checkAll(t *rapid.T, what string) {
	addrs := m.allAddrs()
	views := append(m.liveSorted(), m.stable)
	for _, b := range views {
		for _, a := range addrs {
			m.readThrough(t, b, a, what)
		}
	}
}

func (m *machine) checkLiveSet(t *rapid.T, what string, pruned []*mblock) {
	seen := map[common.Hash]bool{}
	m.db.IterateUnConfirms(func(b *types.Block) { seen[b.Hash()] = true })
	if len(seen) != len(m.live) {
		t.Fatalf("%s: store lists %d unconfirmed blocks, model %d\nops: %v", what, len(seen), len(m.live), m.ops)
	}
	for _, b := range m.live {
		if !seen[b.hash] {
			t.Fatalf("%s: live block b%d is not listed by the store\nops: %v", what, b.id, m.ops)
		}
		if ok, _ := m.db.IsExistByHash(b.hash); !ok {
			t.Fatalf("%s: live block b%d does not exist by hash\nops: %v", what, b.id, m.ops)
		}
		// the ancestor at every height above stable, reached from this leaf
		for x := b; x != nil && x != m.stable; x = x.parent {
			got, err := m.db.GetUnConfirmByHeight(x.height, b.hash)
			if err != nil || got.Hash() != x.hash {
				t.Fatalf("%s: ancestor of b%d at height %d: %v, %v; want b%d\nops: %v", what, b.id, x.height, got, err, x.id, m.ops)
			}
		}
	}
	for _, b := range pruned {
		if ok, _ := m.db.IsExistByHash(b.hash); ok {
			t.Fatalf("%s: pruned block b%d still exists\nops: %v", what, b.id, m.ops)
		}
		if _, err := m.db.GetBlockByHash(b.hash); err == nil {
			t.Fatalf("%s: pruned block b%d can still be loaded\nops: %v", what, b.id, m.ops)
		}
	}
	st, err := m.db.LoadLatestBlock()
	if err != nil || st.Hash() != m.stable.hash {
		t.Fatalf("%s: stable block is %v, %v; model b%d\nops: %v", what, st, err, m.stable.id, m.ops)
	}
}

func TestC09Views(t *testing.T) {
	rapid.Check(t, func(rt *rapid.T) {
		m := &machine{dir: sim.NewDir(), persisted: map[common.Address]int64{}, live: map[int]*mblock{}, stats: map[string]int{}}
		m.db = store.NewChainDataBase(m.dir)
		defer func() {
			sim.CloseDB(m.db)
			os.RemoveAll(m.dir)
		}()
		pool = nil
		for i, n := 0, rapid.IntRange(5, 10).Draw(rt, "poolSize"); i < n; i++ {
			pool = append(pool, genAddr().Draw(rt, "poolAddr"))
		}
		g := m.newBlock(nil)
		if err := m.db.SetBlock(g.hash, g.block); err != nil {
			rt.Fatalf("set genesis: %v", err)
		}
		// a few accounts exist from genesis on, so that "else the stable value" is exercised
		adb, _ := m.db.GetActDatabase(g.hash)
		for i := 0; i < 3; i++ {
			a := poolAddr().Draw(rt, "genesisAddr")
			if _, dup := g.writes[a]; dup {
				continue
			}
			m.nextVal++
			g.writes[a] = m.nextVal
			adb.Put(&types.AccountData{Address: a, Balance: big.NewInt(m.nextVal)}, 0)
		}
		if _, err := m.db.SetStableBlock(g.hash); err != nil {
			rt.Fatalf("stable genesis: %v", err)
		}
		m.stable = g
		for a, v := range g.writes {
			m.persisted[a] = v
		}
		siblingPruned, readBeforeWrite := false, false
		readSeen := map[common.Address]bool{}

		rt.Repeat(map[string]func(*rapid.T){
			"addBlock": func(t *rapid.T) {
				parents := append(m.liveSorted(), m.stable)
				p := parents[rapid.IntRange(0, len(parents)-1).Draw(t, "parent")]
				b := m.newBlock(p)
				if err := m.db.SetBlock(b.hash, b.block); err != nil {
					t.Fatalf("SetBlock(b%d under b%d): %v\nops: %v", b.id, p.id, err, m.ops)
				}
				p.children = append(p.children, b)
				m.live[b.id] = b
				m.ops = append(m.ops, fmt.Sprintf("b%d=add(parent b%d)", b.id, p.id))
				// the block's accounts are saved right after SetBlock: 0..4 writes
				adb, err := m.db.GetActDatabase(b.hash)
				if err != nil {
					t.Fatalf("GetActDatabase: %v", err)
				}
				n := rapid.IntRange(0, 4).Draw(t, "nwrites")
				for i := 0; i < n; i++ {
					a := poolAddr().Draw(t, "waddr")
					if _, dup := b.writes[a]; dup {
						continue
					}
					m.nextVal++
					b.writes[a] = m.nextVal
					adb.Put(&types.AccountData{Address: a, Balance: big.NewInt(m.nextVal)}, b.height)
					m.ops = append(m.ops, fmt.Sprintf("b%d.put(%s=%d)", b.id, short(a), m.nextVal))
					if readSeen[a] {
						readBeforeWrite = true
					}
				}
				m.stats["addBlock"]++
				if len(p.children) > 1 {
					m.stats["sibling"]++
				}
			},
			"read": func(t *rapid.T) {
				views := append(m.liveSorted(), m.stable)
				b := views[rapid.IntRange(0, len(views)-1).Draw(t, "view")]
				a := poolAddr().Draw(t, "raddr")
				m.ops = append(m.ops, fmt.Sprintf("b%d.get(%s)", b.id, short(a)))
				m.readThrough(t, b, a, "read")
				readSeen[a] = true
				m.stats["read"]++
			},
			"stabilise": func(t *rapid.T) {
				lv := m.liveSorted()
				if len(lv) == 0 {
					t.Skip("no live block")
				}
				b := lv[rapid.IntRange(0, len(lv)-1).Draw(t, "target")]
				m.ops = append(m.ops, fmt.Sprintf("stabilise(b%d)", b.id))
				dropped, err := m.db.SetStableBlock(b.hash)
				if err != nil {
					t.Fatalf("SetStableBlock(b%d): %v\nops: %v", b.id, err, m.ops)
				}
				// model: persist the path stable..b, keep strict descendants of b
				var path []*mblock
				for x := b; x != m.stable; x = x.parent {
					path = append(path, x)
				}
				for i := len(path) - 1; i >= 0; i-- {
					for a, v := range path[i].writes {
						m.persisted[a] = v
					}
				}
				var pruned []*mblock
				for id, x := range m.live {
					if x == b || !x.isDescendantOf(b) {
						if x != b && !inPath(path, x) {
							pruned = append(pruned, x)
						}
						delete(m.live, id)
					}
				}
				if len(dropped) != len(pruned) {
					t.Fatalf("SetStableBlock(b%d) reports %d pruned blocks, model %d\nops: %v", b.id, len(dropped), len(pruned), m.ops)
				}
				if len(pruned) > 0 {
					siblingPruned = true
				}
				m.stable = b
				m.checkLiveSet(t, "after stabilise", pruned)
				// persisted account data equals the new stable block's view
				for _, a := range m.allAddrs() {
					got, err := m.db.GetAccount(a)
					want, ok := m.persisted[a]
					if !ok {
						continue
					}
					if err != nil || got.Balance.Int64() != want {
						t.Fatalf("persisted %s = %v, %v; stable view says %d\nops: %v", a.Hex(), got, err, want, m.ops)
					}
				}
				m.checkAll(t, "after stabilise")
				m.stats["stabilise"]++
				if len(path) > 1 {
					m.stats["multi-commit"]++
				}
			},
			"restart": func(t *rapid.T) {
				if m.stats["restart"] >= 2 {
					t.Skip("enough restarts")
				}
				m.ops = append(m.ops, "restart")
				sim.CloseDB(m.db)
				m.db = store.NewChainDataBase(m.dir)
				// unconfirmed blocks live in memory only: a restart keeps exactly the stable chain
				m.live = map[int]*mblock{}
				m.stable.children = nil
				m.checkLiveSet(t, "after restart", nil)
				m.checkAll(t, "after restart")
				m.stats["restart"]++
			},
			"": func(t *rapid.T) {
				if len(m.ops)%7 == 0 {
					m.checkAll(t, "invariant")
				}
			},
		})
		m.checkAll(rt, "final")
		m.checkLiveSet(rt, "final", nil)
		nontrivial := siblingPruned && readBeforeWrite
		var cls []string
		for k := range m.stats {
			cls = append(cls, k)
		}
		sort.Strings(cls)
		if siblingPruned {
			cls = append(cls, "sibling-pruned")
		}
		if readBeforeWrite {
			cls = append(cls, "read-before-write")
		}
		sim.Case("views", sim.HashOf(m.ops), nontrivial, cls, func() interface{} { return m.ops })
	})
}

func inPath(path []*mblock, x *mblock) bool {
	for _, p := range path {
		if p == x {
			return true
		}
	}
	return false
}

func short(a common.Address) string {
	return fmt.Sprintf("%02x.%02x.%02x", a[0], a[9], a[19])
}
