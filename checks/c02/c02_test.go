// C02 — block acceptance is sound: only valid, in-turn, correctly signed blocks enter; rejection is side-effect free.
package c02

import (
	"fmt"
	"os"
	"sort"
	"strings"
	"testing"
	"time"

	"verif/sim"

	"github.com/LemoFoundationLtd/lemochain-core/chain/deputynode"
	"github.com/LemoFoundationLtd/lemochain-core/chain/params"
	"github.com/LemoFoundationLtd/lemochain-core/chain/types"
	"github.com/LemoFoundationLtd/lemochain-core/common"
	"github.com/LemoFoundationLtd/lemochain-core/common/crypto"
	"pgregory.net/rapid"
)

func TestMain(m *testing.M) {
	sim.Quiet()
	code := m.Run()
	os.RemoveAll(sim.TmpRoot())
	os.Exit(code)
}

func join(h []string) string { return "  " + strings.Join(h, "\n  ") + "\n" }

// snapshot of everything the statement says a rejection must leave alone
type snapshot struct {
	current, stable common.Hash
	known           string
	unconfirmed     string
	accounts        sim.StateDump
	pool            string
}

func take(s *sim.Scenario, hashes []common.Hash) *snapshot {
	v := s.V
	sn := &snapshot{current: v.Current().Hash(), stable: v.Stable().Hash()}
	var ks []string
	for _, h := range hashes {
		ks = append(ks, fmt.Sprintf("%s=%v", h.Hex()[:8], v.BC.HasBlock(h)))
	}
	sn.known = strings.Join(ks, " ")
	var us []string
	v.DB.IterateUnConfirms(func(b *types.Block) { us = append(us, b.Hash().Hex()[:8]) })
	sort.Strings(us)
	sn.unconfirmed = strings.Join(us, " ")
	sn.accounts = sim.DumpState(v.View(sn.current), s.AddrList(), &s.Keys, sim.DumpOptions{Roots: true, Versions: true})
	var ps []string
	for _, tx := range v.Pool.GetTxs(0, 100000) {
		ps = append(ps, tx.Hash().Hex()[:8])
	}
	sort.Strings(ps)
	sn.pool = strings.Join(ps, " ")
	return sn
}

func (a *snapshot) diff(b *snapshot) string {
	var out []string
	if a.current != b.current {
		out = append(out, "current block changed")
	}
	if a.stable != b.stable {
		out = append(out, "stable block changed")
	}
	if a.known != b.known {
		out = append(out, "stored blocks changed: "+a.known+" -> "+b.known)
	}
	if a.unconfirmed != b.unconfirmed {
		out = append(out, "unconfirmed tree changed: "+a.unconfirmed+" -> "+b.unconfirmed)
	}
	if d := a.accounts.Diff(b.accounts); d != "" {
		out = append(out, "account state changed:\n"+d)
	}
	if a.pool != b.pool {
		out = append(out, "pool changed: "+a.pool+" -> "+b.pool)
	}
	return strings.Join(out, "; ")
}

// inTurn: the slot model's answer to "which miner address may mine on parent at this time"
func inTurn(s *sim.Scenario, parent *types.Block, when uint32) (common.Address, bool) {
	if when < parent.Time() {
		return common.Address{}, false
	}
	h := parent.Height() + 1
	deps := s.F.DM.GetDeputiesByHeight(h, true)
	if len(deps) == 0 {
		return common.Address{}, false
	}
	parentRank := -1
	if !(h == 1 || deputynode.IsRewardBlock(h)) {
		parentRank = s.F.RankOf(h, parent.MinerAddress())
		if parentRank < 0 {
			return common.Address{}, false
		}
	}
	r := sim.ModelInTurn(parentRank, len(deps), int64(when-parent.Time())*1000, int64(sim.MineTimeoutMs))
	return deps[r].MinerAddress, true
}

func TestC02Acceptance(t *testing.T) {
	rapid.Check(t, func(rt *rapid.T) {
		d := rapid.IntRange(2, 4).Draw(rt, "deputies")
		w := sim.Weights{Transfer: 6, Contract: 2, Vote: 1, Box: 1}
		s := sim.NewScenario(d, w)
		defer s.Close()
		runCase(rt, s, "acceptance", rapid.IntRange(0, 3).Draw(rt, "prefix"))
	})
}

// TestC02TermChange: the same around a term change with a changing number of deputies (terms of 8 blocks, interim 2):
// the prefix runs up to the last block of the old term or a little beyond, so that X is the first block of the new term
// (height 11) or one of its neighbours, mined in any slot.
func TestC02TermChange(t *testing.T) {
	rapid.Check(t, func(rt *rapid.T) {
		w := sim.Weights{Transfer: 4, Candidate: 6, Vote: 2}
		s := sim.NewScenarioWith(sim.Options{Deputies: rapid.IntRange(1, 3).Draw(rt, "deputies"), Weights: w, TermDuration: 8, InterimDuration: 2, DeputyCount: rapid.IntRange(2, 5).Draw(rt, "deputyCount"),
			Funding: []int64{6000900, 5000400, 5000350, 5100000, 5000201, 5001000}})
		defer s.Close()
		runCase(rt, s, "term-change", rapid.IntRange(8, 11).Draw(rt, "prefix"))
	})
}

func runCase(rt *rapid.T, s *sim.Scenario, unit string, prefix int) {
	{
		{
			known := []common.Hash{s.F.Genesis.Hash()}
			blocks := map[common.Hash]*types.Block{s.F.Genesis.Hash(): s.F.Genesis}
			for _, b := range s.Blocks {
				known = append(known, b.Hash())
				blocks[b.Hash()] = b
			}
			// a valid prefix, without confirms so that forks stay possible
			for i, n := 0, prefix; i < n; i++ {
				parent := s.Head()
				dep, when := s.NextSlot(rt, parent)
				b, verdict := s.MineAndValidate(dep, parent, when, s.GenBlockTxs(rt, parent, when, rapid.IntRange(0, 3).Draw(rt, "ntxs")))
				if b == nil || verdict != nil {
					rt.Fatalf("prefix block: %v", verdict)
				}
				known = append(known, b.Hash())
				blocks[b.Hash()] = b
				if unit == "term-change" {
					s.ConfirmAll(b) // the snapshot block must be stable before the new term starts
				}
			}
			// the valid next block X, on the head or on an older block (fork)
			parent := s.Head()
			if unit == "acceptance" && len(s.Blocks) > 1 && rapid.IntRange(0, 3).Draw(rt, "onFork") == 0 {
				parent = s.Blocks[rapid.IntRange(0, len(s.Blocks)-2).Draw(rt, "forkParent")]
			}
			dep, when := s.NextSlot(rt, parent)
			offered := s.GenBlockTxs(rt, parent, when, rapid.IntRange(0, 4).Draw(rt, "xtxs"))
			x, _, err := s.F.MineAs(dep, parent, when, sim.Txs(offered))
			if err != nil {
				rt.Skip("X would be a block that exists already: " + err.Error())
			}
			for _, a := range s.Keys.HarvestLogs(x.ChangeLogs) {
				s.Addrs[a] = true
			}
			known = append(known, x.Hash())

			// mutate
			mut := sim.CloneBlock(x)
			var notes []string
			hashedChange := false
			nm := rapid.IntRange(1, 2).Draw(rt, "nmutations")
			for i := 0; i < nm; i++ {
				note, hashed := mutate(rt, s, mut, parent, blocks)
				notes = append(notes, note)
				hashedChange = hashedChange || hashed
			}
			// a thorough forger: executes his transaction list himself (the miner path does not check transaction bodies), so that
			// every root, the logs and the gas figures fit; only what the list contains is wrong
			txsTouched := false
			for _, n := range notes {
				txsTouched = txsTouched || strings.HasPrefix(n, "txs: one added") || strings.HasPrefix(n, "txs: first one twice") || strings.HasPrefix(n, "txs: reordered")
			}
			if txsTouched && mut.ParentHash() == parent.Hash() && mut.Height() == parent.Height()+1 && mut.Time() >= parent.Time() && rapid.IntRange(0, 2).Draw(rt, "rebuild") != 0 {
				hdr := &types.Header{ParentHash: mut.ParentHash(), MinerAddress: mut.MinerAddress(), Height: mut.Height(), GasLimit: mut.GasLimit(), Time: mut.Time(), Extra: mut.Extra()}
				if rebuilt, _, err := s.F.Assemble(dep, hdr, mut.Txs); err == nil && len(rebuilt.Txs) > 0 {
					mut = rebuilt
					notes = append(notes, fmt.Sprintf("rebuilt: consistently, %d transactions kept", len(rebuilt.Txs)))
					hashedChange = true
				}
			}
			resign := rapid.SampledFrom([]string{"keep", "miner", "in-turn", "other", "outsider"}).Draw(rt, "resign")
			switch resign {
			case "miner":
				sim.SignBlockAs(mut, dep)
			case "in-turn":
				if addr, ok := inTurn(s, parentOf(mut, blocks, parent), mut.Time()); ok {
					if dd := s.W.DeputyByMiner(addr); dd != nil {
						sim.SignBlockAs(mut, dd)
						if rapid.Bool().Draw(rt, "adoptMinerAddress") {
							mut.Header.MinerAddress = addr // a block that deputy could honestly have produced, except for the mutation
							sim.SignBlockAs(mut, dd)
						}
					}
				}
			case "other":
				sim.SignBlockAs(mut, s.W.Deputies[(dep.Index+1+len(s.W.Deputies))%len(s.W.Deputies)])
			case "outsider":
				sim.SignBlockAs(mut, s.W.Outsider)
			}
			known = append(known, mut.Hash())
			desc := fmt.Sprintf("X = %s; mutations: %v; re-signed: %s", s.DescribeBlock(x, offered), notes, resign)

			// what an honest execution of the mutant's own header choices and transaction list gives, computed on the validator BEFORE
			// it sees the mutant (the factory cannot serve: it has stored X, and where X is stable at once - a term with one deputy -
			// it can no longer assemble on X's parent)
			var honest *types.Block
			var honestErr error
			attempted := false
			if pp, ok := blocks[mut.ParentHash()]; ok && (pp.Height() > s.V.Stable().Height() || pp.Hash() == s.V.Stable().Hash()) && mut.Height() == pp.Height()+1 && mut.Time() >= pp.Time() && len(mut.Header.SignData) == 65 {
				hh := mut.Hash()
				if pub, err := crypto.Ecrecover(hh[:], mut.Header.SignData); err == nil {
					for _, dd := range s.W.AllDeputies() {
						if string(dd.NodeID) == string(pub[1:]) {
							hdr := &types.Header{ParentHash: mut.ParentHash(), MinerAddress: mut.MinerAddress(), Height: mut.Height(), GasLimit: mut.GasLimit(), Time: mut.Time(), Extra: mut.Extra(), DeputyRoot: mut.DeputyRoot()}
							honest, _, honestErr = s.V.Assemble(dd, hdr, mut.Txs)
							attempted = true
							s.V.Self = nil
							s.V.BecomeSelf()
						}
					}
				}
			}
			before := take(s, known)
			errIns := s.V.Insert(mut)
			accepted := errIns == nil && s.V.BC.HasBlock(mut.Hash())
			if errIns == nil && !accepted {
				// InsertBlock returns nil for ignorable blocks too (already known / below stable): nothing may have changed
				if d := before.diff(take(s, known)); d != "" {
					rt.Fatalf("an ignored block had side effects: %s\n%s", d, desc)
				}
			}
			if accepted && mut.Hash() != x.Hash() {
				// acceptance must be justified by the reference models
				p, okParent := blocks[mut.ParentHash()]
				if !okParent {
					rt.Fatalf("accepted a block whose parent %s is unknown\n%s", mut.ParentHash().Hex()[:10], desc)
				}
				if mut.Height() != p.Height()+1 {
					rt.Fatalf("accepted height %d on a parent of height %d\n%s", mut.Height(), p.Height(), desc)
				}
				if mut.Time() < p.Time() || int64(mut.Time()) > time.Now().Unix()+1 {
					rt.Fatalf("accepted timestamp %d (parent %d, now %d)\n%s", mut.Time(), p.Time(), time.Now().Unix(), desc)
				}
				if len(mut.Extra()) > params.MaxExtraDataLen {
					rt.Fatalf("accepted %d bytes of extra data\n%s", len(mut.Extra()), desc)
				}
				// signed by the deputy whose slot it is, and the miner address is his
				h := mut.Hash()
				pub, err := crypto.Ecrecover(h[:], mut.Header.SignData)
				if err != nil {
					rt.Fatalf("accepted an unrecoverable signature\n%s", desc)
				}
				want, ok := inTurn(s, p, mut.Time())
				signer := (*sim.Deputy)(nil)
				for _, dd := range s.W.AllDeputies() {
					if string(dd.NodeID) == string(pub[1:]) {
						signer = dd
					}
				}
				if !ok || signer == nil || signer.Miner.Addr != want || mut.MinerAddress() != want {
					rt.Fatalf("accepted a block signed by %v with miner address %s at a time when %s is in turn\n%s", signerName(signer), mut.MinerAddress().Hex()[34:], want.Hex()[34:], desc)
				}
				// transactions: well-formed, inside their window, not a replay of the branch, not twice
				seen := map[common.Hash]bool{}
				for a := p; a != nil; a = blocks[a.ParentHash()] {
					for _, tx := range a.Txs {
						seen[tx.Hash()] = true
						if tx.Type() == params.BoxTx {
							if box, err := types.GetBox(tx.Data()); err == nil {
								for _, sub := range box.SubTxList {
									seen[sub.Hash()] = true
								}
							}
						}
					}
				}
				for _, tx := range mut.Txs {
					if seen[tx.Hash()] {
						rt.Fatalf("accepted a block replaying transaction %s\n%s", tx.Hash().Hex()[:10], desc)
					}
					seen[tx.Hash()] = true
					if tx.Expiration() < uint64(mut.Time()) || tx.Expiration()-uint64(mut.Time()) > uint64(params.MaxTxLifeTime) {
						rt.Fatalf("accepted a transaction outside its lifetime window (exp %d, block time %d)\n%s", tx.Expiration(), mut.Time(), desc)
					}
					if tx.ChainID() != sim.ChainID {
						rt.Fatalf("accepted a transaction for chain %d\n%s", tx.ChainID(), desc)
					}
					if tx.Type() == params.BoxTx {
						if box, err := types.GetBox(tx.Data()); err == nil {
							for _, sub := range box.SubTxList {
								if seen[sub.Hash()] {
									rt.Fatalf("accepted a box replaying sub transaction %s\n%s", sub.Hash().Hex()[:10], desc)
								}
								seen[sub.Hash()] = true
								if sub.Expiration() < uint64(mut.Time()) || sub.Expiration()-uint64(mut.Time()) > uint64(params.MaxTxLifeTime) {
									rt.Fatalf("accepted a box whose sub transaction is outside its lifetime window (exp %d, block time %d)\n%s", sub.Expiration(), mut.Time(), desc)
								}
							}
						}
					}
				}
				// an honest execution of (parent, the miner's header choices, the transaction list) gives exactly this block
				// (the deputy root outside snapshot heights is not constrained by the statement: it counts as one of the miner's choices; at snapshot heights sealing overwrites it)
				err = honestErr
				if attempted && (err != nil || honest.Hash() != mut.Hash()) {
					hd := ""
					if honest != nil {
						hd = fmt.Sprintf("\naccepted header: %+v\nhonest header:   %+v\naccepted txs %d, honest txs %d", *mut.Header, *honest.Header, len(mut.Txs), len(honest.Txs))
					}
					rt.Fatalf("accepted a block which an honest execution of its own header choices and transactions does not reproduce (%v): accepted %s, honest %s\n%s%s", err, mut.Hash().Hex()[:10], hashOf(honest), desc, hd)
				}
			}
			if !accepted && errIns != nil {
				if d := before.diff(take(s, known)); d != "" {
					rt.Fatalf("the rejected block had side effects: %s\n%s", d, desc)
				}
			}
			// sanity, not the property: the unmutated X is accepted
			// (unless an accepted mutant has made its height stable already: a term with a single deputy)
			if err := s.V.Insert(x); err != nil && !s.V.BC.HasBlock(x.Hash()) && !(accepted && s.V.Stable().Height() >= x.Height()) {
				rt.Fatalf("harness: the valid block X is rejected after the mutant (mutant accepted=%v, %v; stable height %d): %v\n%s", accepted, errIns, s.V.Stable().Height(), err, desc)
			}
			cls := append([]string{"resign-" + resign, fmt.Sprintf("accepted=%v", accepted)}, kinds(notes)...)
			cls = append(cls, fmt.Sprintf("x-height%d", min(int(x.Height()), 12)))
			sim.Case(unit, sim.HashOf(desc), hashedChange || mut.Txs.MerkleRootSha() != x.Txs.MerkleRootSha(), cls, func() interface{} { return desc })
		}
	}
}

func kinds(notes []string) []string {
	var r []string
	for _, n := range notes {
		r = append(r, "mut-"+strings.SplitN(n, ":", 2)[0])
	}
	return r
}

func hashOf(b *types.Block) string {
	if b == nil {
		return "nil"
	}
	return b.Hash().Hex()[:10]
}

func signerName(d *sim.Deputy) string {
	if d == nil {
		return "nobody known"
	}
	return d.Miner.Name
}

func parentOf(b *types.Block, blocks map[common.Hash]*types.Block, fallback *types.Block) *types.Block {
	if p, ok := blocks[b.ParentHash()]; ok {
		return p
	}
	return fallback
}

// mutate applies one corruption; returns a note and whether a hashed header field changed.
func mutate(t *rapid.T, s *sim.Scenario, b *types.Block, parent *types.Block, blocks map[common.Hash]*types.Block) (string, bool) {
	h := b.Header
	switch rapid.IntRange(0, 24).Draw(t, "mutation") {
	case 0:
		h.ParentHash[7] ^= 0x10
		return "parent: unknown hash", true
	case 1:
		if gp, ok := blocks[parent.ParentHash()]; ok {
			h.ParentHash = gp.Hash()
			return "parent: grandparent", true
		}
		h.ParentHash = common.Hash{}
		return "parent: zero hash", true
	case 2:
		h.MinerAddress = s.W.Deputies[rapid.IntRange(0, len(s.W.Deputies)-1).Draw(t, "otherMiner")].Miner.Addr
		return "miner: another deputy", true
	case 3:
		h.MinerAddress = s.W.Outsider.Miner.Addr
		return "miner: outsider", true
	case 4:
		h.VersionRoot[3] ^= 1
		return "versionRoot: flipped bit", true
	case 5:
		h.TxRoot[3] ^= 1
		return "txRoot: flipped bit", true
	case 6:
		h.LogRoot[3] ^= 1
		return "logRoot: flipped bit", true
	case 7:
		h.Height = rapid.SampledFrom([]uint32{h.Height + 1, h.Height - 1, 0, ^uint32(0)}).Draw(t, "height")
		return fmt.Sprintf("height: %d", h.Height), true
	case 8:
		h.GasLimit = rapid.SampledFrom([]uint64{h.GasLimit + 1, h.GasLimit / 2, 1 << 62}).Draw(t, "gasLimit")
		return "gasLimit: changed", true
	case 9:
		if rapid.Bool().Draw(t, "gasUp") {
			h.GasUsed++
		} else if h.GasUsed > 0 {
			h.GasUsed--
		} else {
			h.GasUsed = 21000
		}
		return "gasUsed: off", true
	case 10:
		if rapid.IntRange(0, 3).Draw(t, "absurdTime") == 0 {
			h.Time = rapid.SampledFrom([]uint32{0, 1, 9999999, 10000000, 10000001}).Draw(t, "earlyTime")
			return "time: early 1970", true
		}
		h.Time = parent.Time() - uint32(rapid.IntRange(1, 30).Draw(t, "before"))
		return "time: before the parent", true
	case 11:
		h.Time = uint32(time.Now().Unix()) + uint32(rapid.SampledFrom([]int{2, 3, 10, 1000}).Draw(t, "future"))
		return "time: in the future", true
	case 12:
		h.Time += uint32(rapid.IntRange(1, 40).Draw(t, "later"))
		return "time: later (maybe another deputy's slot)", true
	case 13:
		if len(h.SignData) > 0 {
			h.SignData[rapid.IntRange(0, len(h.SignData)-1).Draw(t, "sigByte")] ^= 0x04
		}
		return "signData: flipped bit", false
	case 14:
		h.SignData = h.SignData[:rapid.IntRange(0, 64).Draw(t, "sigLen")]
		return "signData: short", false
	case 15:
		h.DeputyRoot = []byte{1, 2, 3}
		return "deputyRoot: junk", true
	case 16:
		h.Extra = strings.Repeat("x", rapid.SampledFrom([]int{1, 256, 257, 1000}).Draw(t, "extraLen"))
		return fmt.Sprintf("extra: %d bytes", len(h.Extra)), true
	case 17:
		if len(b.Txs) > 0 {
			i := rapid.IntRange(0, len(b.Txs)-1).Draw(t, "dropTx")
			b.Txs = append(b.Txs[:i:i], b.Txs[i+1:]...)
			fixTxRoot(t, b)
			return "txs: one dropped", true
		}
		fallthrough
	case 18:
		tx := sim.Transfer(s.W.Founder, s.W.Users[1].Addr, sim.Lemo(3), uint64(h.Time)+600)
		addKind := rapid.IntRange(0, 6).Draw(t, "addTx")
		switch addKind {
		case 5: // a well-formed box whose sub transaction lives longer than the maximum lifetime from now (but not from the box's expiration)
			sub := sim.Transfer(s.W.Founder, s.W.Users[1].Addr, sim.Lemo(3), uint64(h.Time)+uint64(rapid.SampledFrom([]int{1801, 2500, 3200}).Draw(t, "subLife")))
			tx = sim.Box(s.W.Founder, types.Transactions{sub}, 100000, uint64(h.Time)+1500)
		case 6: // a box whose sub transaction expired
			sub := sim.Transfer(s.W.Founder, s.W.Users[1].Addr, sim.Lemo(3), uint64(h.Time)-1)
			tx = sim.Box(s.W.Founder, types.Transactions{sub}, 100000, uint64(h.Time)-1)
		case 1: // expired
			tx = sim.Transfer(s.W.Founder, s.W.Users[1].Addr, sim.Lemo(3), uint64(h.Time)-1)
		case 2: // too far in the future
			tx = sim.Transfer(s.W.Founder, s.W.Users[1].Addr, sim.Lemo(3), uint64(h.Time)+1801)
		case 3: // another chain
			to := s.W.Users[1].Addr
			tx = sim.Sign(sim.TxSpec{From: s.W.Founder.Addr, To: &to, Amount: sim.Lemo(3), GasLimit: 30000, Exp: uint64(h.Time) + 600, ChainID: sim.ChainID + 1}.Build(), s.W.Founder.Key)
		case 4: // replay of a transaction of the branch
			for a := parent; a != nil; a = blocks[a.ParentHash()] {
				if len(a.Txs) > 0 {
					tx = sim.CloneTx(a.Txs[0])
					break
				}
			}
		}
		tx.SetGasUsed(21000)
		b.Txs = append(b.Txs, tx)
		fixTxRoot(t, b)
		return "txs: one added (" + []string{"valid", "expired", "exp too far", "other chain", "replay", "box with long-lived sub", "box with expired sub"}[addKind] + ")", true
	case 19:
		if len(b.Txs) > 0 {
			b.Txs = append(b.Txs, b.Txs[0])
			fixTxRoot(t, b)
			return "txs: first one twice", true
		}
		return "none", false
	case 20:
		if len(b.Txs) > 1 {
			b.Txs[0], b.Txs[len(b.Txs)-1] = b.Txs[len(b.Txs)-1], b.Txs[0]
			fixTxRoot(t, b)
			return "txs: reordered", true
		}
		return "none", false
	case 21:
		if len(b.Txs) > 0 {
			b.Txs[0].SetGasUsed(b.Txs[0].GasUsed() + 1)
			return "txs: gasUsed of one altered", false
		}
		return "none", false
	case 22:
		if len(b.ChangeLogs) > 0 && rapid.Bool().Draw(t, "dropLogs") {
			b.ChangeLogs = b.ChangeLogs[1:]
			return "changeLogs: one dropped", false
		}
		b.ChangeLogs = nil
		return "changeLogs: all dropped", false
	case 23:
		var junk types.SignData
		junk[3] = 9
		b.Confirms = append(b.Confirms, junk, sim.ConfirmAs(b, s.W.Outsider))
		return "confirms: junk added", false
	default:
		b.DeputyNodes = types.DeputyNodes{&types.DeputyNode{MinerAddress: s.W.Outsider.Miner.Addr, NodeID: s.W.Outsider.NodeID, Rank: 0, Votes: sim.Lemo(1)}}
		return "deputyNodes: junk added", false
	}
}

// fixTxRoot: a forger would of course set the tx root to match his list (sometimes he forgets)
func fixTxRoot(t *rapid.T, b *types.Block) {
	if rapid.IntRange(0, 3).Draw(t, "fixTxRoot") != 0 {
		b.Header.TxRoot = b.Txs.MerkleRootSha()
	}
}
