package c15

import (
	"bytes"
	"encoding/json"
	"strings"

	"pgregory.net/rapid"
)

// ---- a generic RLP tree (independent of the product's codec) --------------------------------------------------

type item struct {
	list bool
	b    []byte
	kids []*item
}

func parseItem(buf []byte) (*item, []byte, bool) {
	if len(buf) == 0 {
		return nil, nil, false
	}
	p := buf[0]
	readLen := func(n int, rest []byte) (int, []byte, bool) {
		if len(rest) < n || n > 4 {
			return 0, nil, false
		}
		l := 0
		for _, x := range rest[:n] {
			l = l<<8 | int(x)
		}
		return l, rest[n:], true
	}
	switch {
	case p < 0x80:
		return &item{b: []byte{p}}, buf[1:], true
	case p < 0xb8:
		l := int(p - 0x80)
		if len(buf) < 1+l {
			return nil, nil, false
		}
		return &item{b: append([]byte(nil), buf[1:1+l]...)}, buf[1+l:], true
	case p < 0xc0:
		l, rest, ok := readLen(int(p-0xb7), buf[1:])
		if !ok || len(rest) < l {
			return nil, nil, false
		}
		return &item{b: append([]byte(nil), rest[:l]...)}, rest[l:], true
	default:
		var l int
		rest := buf[1:]
		if p < 0xf8 {
			l = int(p - 0xc0)
		} else {
			var ok bool
			l, rest, ok = readLen(int(p-0xf7), rest)
			if !ok {
				return nil, nil, false
			}
		}
		if len(rest) < l {
			return nil, nil, false
		}
		body, after := rest[:l], rest[l:]
		it := &item{list: true}
		for len(body) > 0 {
			k, r, ok := parseItem(body)
			if !ok {
				return nil, nil, false
			}
			it.kids = append(it.kids, k)
			body = r
		}
		return it, after, true
	}
}

func (it *item) enc() []byte {
	if !it.list {
		return encStr(it.b)
	}
	var parts [][]byte
	for _, k := range it.kids {
		parts = append(parts, k.enc())
	}
	return encList(parts...)
}

// size counts the nodes of the tree (shared nodes as often as they occur), giving up beyond 400 000.
func (it *item) size() int {
	budget := 400000
	var rec func(n *item)
	rec = func(n *item) {
		budget--
		for _, k := range n.kids {
			if budget <= 0 {
				return
			}
			rec(k)
		}
	}
	rec(it)
	return 400000 - budget
}

func (it *item) clone() *item {
	c := &item{list: it.list, b: append([]byte(nil), it.b...)}
	for _, k := range it.kids {
		c.kids = append(c.kids, k.clone())
	}
	return c
}

// walk lists every node with its parent and index
type slot struct {
	parent *item
	idx    int
	node   *item
	depth  int
}

func (it *item) slots() []slot {
	var res []slot
	var rec func(n *item, depth int)
	rec = func(n *item, depth int) {
		for i, k := range n.kids {
			res = append(res, slot{n, i, k, depth})
			if k.list {
				rec(k, depth+1)
			}
		}
	}
	rec(it, 1)
	return res
}

var hostileScalars = [][]byte{
	{}, {0}, {0, 0}, {1}, {0x7f}, {0x80}, {0xff, 0xff, 0xff, 0xff}, {1, 0, 0, 0, 0}, {0xff, 0xff, 0xff, 0xff, 0xff, 0xff, 0xff, 0xff},
	{1, 0, 0, 0, 0, 0, 0, 0, 0}, bytes.Repeat([]byte{0xff}, 32), bytes.Repeat([]byte{0xab}, 33), bytes.Repeat([]byte{1}, 20), bytes.Repeat([]byte{2}, 64), bytes.Repeat([]byte{3}, 65),
	bytes.Repeat([]byte{4}, 66), bytes.Repeat([]byte{'a'}, 1000),
}

// mutateTree applies one structural mutation and says what it did.
func mutateTree(t *rapid.T, root *item) string {
	sl := root.slots()
	if len(sl) == 0 {
		root.kids = append(root.kids, &item{})
		return "append-empty"
	}
	s := sl[rapid.IntRange(0, len(sl)-1).Draw(t, "node")]
	switch rapid.IntRange(0, 9).Draw(t, "treeMut") {
	case 0:
		s.parent.kids[s.idx] = &item{} // empty string: a nil pointer / zero value after decoding
		return "to-empty-string"
	case 1:
		s.parent.kids[s.idx] = &item{list: true} // empty list
		return "to-empty-list"
	case 2:
		s.parent.kids[s.idx] = &item{b: hostileScalars[rapid.IntRange(0, len(hostileScalars)-1).Draw(t, "scalar")]}
		return "to-hostile-scalar"
	case 3:
		s.parent.kids = append(s.parent.kids[:s.idx:s.idx], s.parent.kids[s.idx+1:]...)
		return "delete"
	case 4:
		n := rapid.SampledFrom([]int{1, 2, 50, 1000, 10000}).Draw(t, "copies")
		// keep the harness's own tree bounded: repeated duplication multiplies (10^4 x 10^4 nodes took 65 GB)
		if sz := s.node.size(); sz*n > 300000 {
			n = 300000 / sz
		}
		if root.size() > 300000 {
			n = 1
		}
		var kids []*item
		kids = append(kids, s.parent.kids[:s.idx]...)
		for i := 0; i <= n; i++ {
			kids = append(kids, s.node)
		}
		kids = append(kids, s.parent.kids[s.idx+1:]...)
		s.parent.kids = kids
		return "duplicate"
	case 5:
		s.parent.kids[s.idx] = &item{list: true, kids: []*item{s.node}}
		return "wrap-in-list"
	case 6:
		if !s.node.list && len(s.node.b) > 0 {
			i := rapid.IntRange(0, len(s.node.b)-1).Draw(t, "byteAt")
			s.node.b[i] ^= byte(1 << uint(rapid.IntRange(0, 7).Draw(t, "bit")))
			return "flip-bit"
		}
		s.parent.kids[s.idx] = &item{b: []byte("x")}
		return "list-to-scalar"
	case 7:
		o := sl[rapid.IntRange(0, len(sl)-1).Draw(t, "other")]
		s.parent.kids[s.idx] = o.node.clone()
		return "copy-of-other-node"
	case 8:
		if !s.node.list {
			s.node.b = append(s.node.b, rapid.SliceOfN(rapid.Byte(), 1, 40).Draw(t, "extra")...)
			return "lengthen"
		}
		s.node.kids = append(s.node.kids, &item{b: []byte{1}})
		return "append-element"
	default:
		if !s.node.list && len(s.node.b) > 0 {
			s.node.b = s.node.b[:rapid.IntRange(0, len(s.node.b)-1).Draw(t, "shorten")]
			return "shorten"
		}
		s.parent.kids[s.idx] = &item{b: []byte{}}
		return "to-empty-string"
	}
}

// mutatePayload: structural mutations on the RLP tree of a valid payload, or raw damage.
func mutatePayload(t *rapid.T, valid []byte) ([]byte, string) {
	switch rapid.IntRange(0, 9).Draw(t, "payloadMut") {
	case 0:
		return valid, "valid"
	case 1:
		return valid[:rapid.IntRange(0, len(valid)).Draw(t, "truncate")], "truncated"
	case 2:
		return append(append([]byte(nil), valid...), rapid.SliceOfN(rapid.Byte(), 1, 20).Draw(t, "trailing")...), "trailing-bytes"
	case 3:
		return rapid.SliceOfN(rapid.Byte(), 0, 60).Draw(t, "random"), "random"
	default:
		root, _, ok := parseItem(valid)
		if !ok || !root.list {
			return valid, "valid"
		}
		var notes []string
		for i, n := 0, rapid.IntRange(1, 3).Draw(t, "nTreeMuts"); i < n; i++ {
			backup := root.clone()
			note := mutateTree(t, root)
			// duplicated nodes are shared: a later duplication inside one of them multiplies through all its copies. Keep the
			// logical size of the harness's tree bounded (10^8 nodes took tens of GB), or take the mutation back
			if root.size() > 300000 {
				root = backup
				note += "(taken back: tree too large)"
			}
			notes = append(notes, note)
		}
		out := root.enc()
		if len(out) > 24<<20 { // more than one frame can carry
			return valid, "valid"
		}
		return out, strings.Join(notes, "+")
	}
}

// ---- JSON documents inside transaction data ----------------------------------------------------------------------

var hostileJSON = []string{
	`null`, `true`, `0`, `-1`, `1e400`, `""`, `"\u0000"`, `[]`, `{}`, `[null]`, `[[[[[[[[[[[[[[[[[[[[[[[[[[[[[[]]]]]]]]]]]]]]]]]]]]]]]]]]]]]]`,
	`"` + strings.Repeat("a", 5000) + `"`, `-0.5`, `123456789012345678901234567890123456789012345678901234567890123456789012345678901234567890`, `{"a":{}}`, `"0x"`, `"0xzz"`,
}

// mutateJSON changes one node of a JSON document to a hostile value, deletes or duplicates a member.
func mutateJSON(t *rapid.T, doc []byte) ([]byte, string) {
	var v interface{}
	dec := json.NewDecoder(bytes.NewReader(doc))
	dec.UseNumber()
	if err := dec.Decode(&v); err != nil {
		return []byte(hostileJSON[rapid.IntRange(0, len(hostileJSON)-1).Draw(t, "jsonWhole")]), "json-replaced"
	}
	hostile := func() interface{} {
		return json.RawMessage(hostileJSON[rapid.IntRange(0, len(hostileJSON)-1).Draw(t, "jsonValue")])
	}
	type ref struct {
		m   map[string]interface{}
		key string
		a   []interface{}
		idx int
	}
	var refs []ref
	var rec func(x interface{})
	rec = func(x interface{}) {
		switch n := x.(type) {
		case map[string]interface{}:
			keys := make([]string, 0, len(n))
			for k := range n {
				keys = append(keys, k)
			}
			sortStrings(keys)
			for _, k := range keys {
				refs = append(refs, ref{m: n, key: k})
				rec(n[k])
			}
		case []interface{}:
			for i := range n {
				refs = append(refs, ref{a: n, idx: i})
				rec(n[i])
			}
		}
	}
	rec(v)
	if len(refs) == 0 || rapid.IntRange(0, 3).Draw(t, "jsonRoot") == 0 {
		return []byte(hostileJSON[rapid.IntRange(0, len(hostileJSON)-1).Draw(t, "jsonWhole")]), "json-replaced"
	}
	r := refs[rapid.IntRange(0, len(refs)-1).Draw(t, "jsonNode")]
	note := "json-hostile-value"
	if r.m != nil {
		if rapid.IntRange(0, 4).Draw(t, "jsonDelete") == 0 {
			delete(r.m, r.key)
			note = "json-member-deleted"
		} else {
			r.m[r.key] = hostile()
		}
	} else {
		r.a[r.idx] = hostile()
	}
	out, err := json.Marshal(v)
	if err != nil {
		return doc, "json-unchanged"
	}
	return out, note
}

func sortStrings(s []string) {
	for i := 1; i < len(s); i++ {
		for j := i; j > 0 && s[j] < s[j-1]; j-- {
			s[j], s[j-1] = s[j-1], s[j]
		}
	}
}
