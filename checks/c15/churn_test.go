// C15 — unit "churn": connections that come and go. A remote can open and drop connections for ever; whatever the node keeps
// per connection must go when the connection goes, or its memory grows without bound.
package c15

import (
	"fmt"
	"runtime"
	"testing"
	"time"

	"verif/sim"

	"github.com/LemoFoundationLtd/lemochain-core/network"
	"github.com/LemoFoundationLtd/lemochain-core/network/p2p"
	"pgregory.net/rapid"
)

func TestC15Churn(t *testing.T) {
	rapid.Check(t, func(rt *rapid.T) {
		ctx := buildCtx(2, 1)
		defer ctx.s.Close()
		nn := ctx.s.V.StartNet()
		defer nn.StopNet()
		conns := rapid.IntRange(60, 200).Draw(rt, "connections")
		how := rapid.SampledFrom([]string{"idle", "after-a-request", "after-garbage", "mixed"}).Draw(rt, "how")
		sim.Journal(map[string]interface{}{"unit": "churn", "connections": conns, "how": how})
		warm := sim.NewScriptPeer("c15-churn-warm")
		if err := nn.Connect(warm, network.LatestStatus{}); err != nil {
			rt.Fatalf("harness: %v", err)
		}
		warm.Close()
		time.Sleep(50 * time.Millisecond)
		runtime.GC()
		g0, h0 := runtime.NumGoroutine(), heapNow()
		for i := 0; i < conns; i++ {
			p := sim.NewScriptPeer(fmt.Sprintf("c15-churn-%d", i))
			if err := nn.Connect(p, network.LatestStatus{}); err != nil {
				rt.Fatalf("connection %d is not registered within 10 s: %v", i, err)
			}
			mode := how
			if how == "mixed" {
				mode = []string{"idle", "after-a-request", "after-garbage"}[i%3]
			}
			switch mode {
			case "after-a-request":
				p.SendObj(p2p.GetLstStatusMsg, &network.GetLatestStatus{})
				waitFor(5*time.Second, func() bool { return len(p.Out()) >= 2 })
			case "after-garbage":
				p.Send(p2p.BlocksMsg, []byte{0xff, 0x01})
				waitFor(5*time.Second, func() bool { return p.Closed() || p.Pending() == 0 })
			}
			p.Close()
		}
		// everything that belonged to those connections may take a moment to wind down (bounded; the verdict needs it to end)
		left := 0
		waitFor(10*time.Second, func() bool {
			left = runtime.NumGoroutine() - g0
			return left <= 5
		})
		runtime.GC()
		h1 := heapNow()
		if left > conns/4 {
			rt.Fatalf("after %d connections came and went (%s) the node still runs %d goroutines more than before: it keeps something per closed connection for ever", conns, how, left)
		}
		if h1 > h0 && (h1-h0)/uint64(conns) > 16<<10 {
			rt.Fatalf("after %d connections came and went (%s) the live heap is %d KiB larger, %d KiB per closed connection", conns, how, (h1-h0)>>10, (h1-h0)/uint64(conns)>>10)
		}
		sim.JournalDone()
		sim.Case("churn", sim.HashOf(conns, how), true, []string{"churn-" + how}, func() interface{} { return fmt.Sprintf("%d connections, %s", conns, how) })
	})
}
