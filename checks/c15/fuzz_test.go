// C15 — thorough tier: coverage-guided native fuzzing of the post-handshake frame reader. The input is decoded into one frame
// (raw cipher text or correctly encrypted plain text, true or hostile claimed length) so that the fuzzer's mutations reach the
// decryption, unpadding, code check and dispatch instead of dying at the magic bytes. Oracle: same as the frames unit.
package c15

import (
	"testing"
)

var hostileClaims = []uint32{1 << 30, 25<<20 + 1, 25 << 20, 64 << 10, 0, 1, 15, 16, 17, 1<<31 - 1, 1 << 31, ^uint32(0)}

func decodeFuzzCase(data []byte) *FrameCase {
	if len(data) < 2 {
		return nil
	}
	f := Frame{Magic: []byte{0x5a, 0x48}, Cut: -1, Mode: "raw", Body: data[2:]}
	if data[0]&1 == 1 {
		f.Mode = "enc"
	}
	switch data[0] >> 1 & 3 {
	case 1:
		v := hostileClaims[int(data[1])%len(hostileClaims)]
		f.ClaimLen = &v
	case 2:
		v := uint32(len(f.Body)) + uint32(int8(data[1]))
		f.ClaimLen = &v
	}
	if data[0]&8 != 0 {
		f.Magic = []byte{data[1], 0x48}
	}
	if data[0]&16 != 0 && len(f.Body) > 0 {
		f.Cut = int(data[1]) % len(f.Body)
	}
	return &FrameCase{Phase: "post", Frames: []Frame{f}, Seed: []byte{1, 2, 3, 4}}
}

func FuzzFrameReader(f *testing.F) {
	f.Add([]byte{1, 0, 0, 0, 0, 6, 0xc0})                                          // encrypted: code 6 (txs), empty list
	f.Add([]byte{1, 0, 0, 0, 0, 8, 0xc1, 0xc0})                                    // encrypted: code 8 (blocks), list of an empty list
	f.Add([]byte{0, 0, 1, 2, 3, 4, 5, 6, 7, 8, 9, 10, 11, 12, 13, 14, 15, 16, 17}) // raw, 17 bytes
	f.Add([]byte{3, 0, 0, 0, 0, 1})                                                // hostile claim 2^30, heartbeat
	f.Add([]byte{1, 0, 0, 0})                                                      // plain text shorter than a code
	f.Add([]byte{1, 0, 0, 0, 0, 0x0d, 0xc3, 0x01, 0xc1, 0x80})                     // discover response
	f.Fuzz(func(t *testing.T, data []byte) {
		c := decodeFuzzCase(data)
		if c == nil || len(data) > 1<<16 {
			return
		}
		o, err := runFrameCase(c)
		if err != nil {
			t.Skip(err.Error())
		}
		if msg := judgeFrameCase(c, o); msg != "" {
			t.Fatalf("%s\ncase: %+v", msg, *c)
		}
	})
}
