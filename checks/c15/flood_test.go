// C15 — unit "flood": a remote that parks more out-of-order material than the caches hold (both caches empty themselves past
// 10240 distinct heights). The node must stay alive and answering.
package c15

import (
	"fmt"
	"testing"
	"time"

	"verif/sim"

	"github.com/LemoFoundationLtd/lemochain-core/chain/types"
	"github.com/LemoFoundationLtd/lemochain-core/common"
	"github.com/LemoFoundationLtd/lemochain-core/network"
	"github.com/LemoFoundationLtd/lemochain-core/network/p2p"
	"pgregory.net/rapid"
)

func TestC15Flood(t *testing.T) {
	rapid.Check(t, func(rt *rapid.T) {
		ctx := buildCtx(2, 1)
		defer ctx.s.Close()
		r := ctx.s.V
		nn := r.StartNet()
		defer nn.StopNet()
		p := sim.NewScriptPeer("c15-flood")
		defer p.Close()
		if err := nn.Connect(p, network.LatestStatus{}); err != nil {
			rt.Fatalf("harness: %v", err)
		}
		what := rapid.SampledFrom([]string{"blocks", "confirms", "both"}).Draw(rt, "what")
		count := rapid.IntRange(10241, 10400).Draw(rt, "heights")
		batch := rapid.SampledFrom([]int{50, 200, 1000}).Draw(rt, "batch")
		sim.Journal(map[string]interface{}{"unit": "flood", "what": what, "heights": count, "batch": batch})
		dep := ctx.s.W.DeputyByMiner(ctx.x.MinerAddress())
		sent := 0
		if what != "confirms" {
			var bs types.Blocks
			for i := 0; i < count; i++ {
				o := &types.Block{Header: &types.Header{ParentHash: common.BytesToHash([]byte{byte(i), byte(i >> 8), 0xee}), MinerAddress: ctx.x.MinerAddress(), Height: ctx.x.Height() + 5 + uint32(i), GasLimit: ctx.x.GasLimit(), Time: ctx.x.Time()}}
				sim.SignBlockAs(o, dep)
				bs = append(bs, o)
				if len(bs) == batch || i == count-1 {
					buf := enc(&bs)
					sent += len(buf)
					p.Send(p2p.BlocksMsg, buf)
					bs = nil
					waitFor(20*time.Second, func() bool { return p.Pending() == 0 || p.Closed() })
				}
			}
		}
		if what != "blocks" {
			for i := 0; i < count; i++ {
				c := &network.BlockConfirmData{Hash: common.BytesToHash([]byte{byte(i), byte(i >> 8), 0xcc}), Height: ctx.x.Height() + 5 + uint32(i), SignInfo: sim.ConfirmAs(ctx.x, dep)}
				buf := enc(c)
				sent += len(buf)
				if p.Closed() {
					break
				}
				p.Send(p2p.ConfirmMsg, buf)
				if i%500 == 0 {
					waitFor(20*time.Second, func() bool { return p.Pending() == 0 || p.Closed() })
				}
			}
			waitFor(30*time.Second, func() bool { return p.Pending() == 0 || p.Closed() })
		}
		// alive and answering?
		probe := sim.NewScriptPeer("c15-flood-probe")
		defer probe.Close()
		if err := nn.Connect(probe, network.LatestStatus{}); err != nil {
			rt.Fatalf("after %d parked heights (%s) a fresh peer is not registered within 10 s", count, what)
		}
		probe.SendObj(p2p.GetLstStatusMsg, &network.GetLatestStatus{})
		if !waitFor(30*time.Second, func() bool {
			for _, m := range probe.Out() {
				if m.Code == p2p.LstStatusMsg {
					return true
				}
			}
			return false
		}) {
			rt.Fatalf("after %d parked heights (%s) the node does not answer a status request within 30 s", count, what)
		}
		probe.SendBlocks(sim.CloneBlock(ctx.x))
		if !waitFor(30*time.Second, func() bool { return r.BC.HasBlock(ctx.x.Hash()) }) {
			rt.Fatalf("after %d parked heights (%s) the node does not insert the valid next block within 30 s (block loop stuck)", count, what)
		}
		// and the flooding peer's own connection still gets served (the confirm cache is touched by its reader)
		if !p.Closed() {
			p.SendObj(p2p.GetLstStatusMsg, &network.GetLatestStatus{})
			if !waitFor(30*time.Second, func() bool {
				for _, m := range p.Out() {
					if m.Code == p2p.LstStatusMsg {
						return true
					}
				}
				return false
			}) {
				rt.Fatalf("after %d parked heights (%s) the flooding connection itself is no longer served (handler stuck)", count, what)
			}
		}
		sim.JournalDone()
		sim.Case("flood", sim.HashOf(what, count, batch), true, []string{"flood-" + what, fmt.Sprintf("batch%d", batch)}, func() interface{} {
			return fmt.Sprintf("%s at %d distinct heights in batches of %d (%d bytes)", what, count, batch, sent)
		})
	})
}
