// C15 — unit "frames": a remote party writes arbitrary bytes to a real p2p.Peer (server side), before the transport
// handshake or after a real one, in arbitrary splits. The node must neither panic nor hold memory out of proportion to
// the bytes it received, and the peer's goroutines must end once the remote hangs up.
package c15

import (
	"crypto/ecdsa"
	"encoding/binary"
	"fmt"
	"io"
	"net"
	"os"
	"runtime"
	"runtime/pprof"
	"testing"
	"time"

	"verif/sim"

	"github.com/LemoFoundationLtd/lemochain-core/common/crypto"
	"github.com/LemoFoundationLtd/lemochain-core/common/crypto/ecies"
	"github.com/LemoFoundationLtd/lemochain-core/network/p2p"
	"pgregory.net/rapid"
)

func TestMain(m *testing.M) {
	sim.Quiet()
	code := m.Run()
	if path := os.Getenv("VERIF_DEBUG_GOROUTINES"); path != "" {
		if f, err := os.Create(path); err == nil {
			pprof.Lookup("goroutine").WriteTo(f, 1)
			f.Close()
		}
	}
	os.RemoveAll(sim.TmpRoot())
	os.Exit(code)
}

// the constant term of the memory bound: twice the code's own frame cap (25 MiB) plus slack for the runtime
const memConst = 64 << 20
const memPerByte = 64

// Frame is one frame written by the remote.
type Frame struct {
	Magic    []byte  `json:"magic"`    // 2 bytes, normally 5a48
	ClaimLen *uint32 `json:"claimLen"` // nil: the true length of the body
	Mode     string  `json:"mode"`     // "raw": Body goes out as it is; "enc": Body is plaintext, encrypted with the session key (post) or ECIES to the node key (pre)
	Body     []byte  `json:"body"`
	Cut      int     `json:"cut"` // send only the first Cut bytes of the body (-1: all)
}

// FrameCase is a whole connection.
type FrameCase struct {
	Phase  string  `json:"phase"` // "pre": hostile from the first byte; "post": after a real handshake
	Frames []Frame `json:"frames"`
	Junk   []byte  `json:"junk"`   // raw bytes written instead of / after the frames
	Splits []int   `json:"splits"` // chunk sizes the byte stream is written in (cycled)
	Seed   []byte  `json:"seed"`   // randomness for ECIES (deterministic)
}

// detReader: a deterministic byte stream (keccak chain) for encryption nonces.
type detReader struct {
	state []byte
	buf   []byte
}

func (r *detReader) Read(p []byte) (int, error) {
	for i := range p {
		if len(r.buf) == 0 {
			r.state = crypto.Keccak256(r.state)
			r.buf = append([]byte(nil), r.state...)
		}
		p[i] = r.buf[0]
		r.buf = r.buf[1:]
	}
	return len(p), nil
}

func heapNow() uint64 {
	var ms runtime.MemStats
	runtime.ReadMemStats(&ms)
	return ms.HeapAlloc
}

var (
	srvKey = sim.Key("c15/server")
	cliKey = sim.Key("c15/client")
)

func nodeIDOf(k *ecdsa.PrivateKey) *p2p.NodeID {
	var id p2p.NodeID
	copy(id[:], crypto.PrivateKeyToNodeID(k))
	return &id
}

type frameOutcome struct {
	sent       int
	peak       uint64
	base       uint64
	handshook  bool
	msgs       int
	runEnded   bool
	srvErr     error
	connClosed bool
}

// runFrameCase executes a case against a fresh server-side peer.
func runFrameCase(c *FrameCase) (*frameOutcome, error) {
	out := &frameOutcome{}
	srvConn, cliConn := net.Pipe()
	srv := p2p.NewPeer(srvConn)
	hsDone := make(chan error, 1)
	runDone := make(chan struct{})
	msgCount := make(chan int, 1)
	runtime.GC()
	out.base = heapNow()
	out.peak = out.base
	go func() {
		err := srv.DoHandshake(srvKey, nil)
		hsDone <- err
		if err != nil {
			srvConn.Close()
			close(runDone)
			msgCount <- 0
			return
		}
		go func() {
			n := 0
			for {
				if _, err := srv.ReadMsg(); err != nil {
					msgCount <- n
					return
				}
				n++
			}
		}()
		srv.Run()
		close(runDone)
	}()
	// whatever the node writes is read and dropped (net.Pipe is synchronous)
	var key []byte
	if c.Phase == "post" {
		cli := p2p.NewPeer(cliConn).(*p2p.Peer)
		if err := cli.DoHandshake(cliKey, nodeIDOf(srvKey)); err != nil {
			return nil, fmt.Errorf("harness: client handshake: %v", err)
		}
		if err := <-hsDone; err != nil {
			return nil, fmt.Errorf("harness: server handshake: %v", err)
		}
		out.handshook = true
		key = cli.VerifSessionKey()
	}
	go io.Copy(io.Discard, cliConn)

	rnd := &detReader{state: append([]byte("c15"), c.Seed...)}
	var stream []byte
	for _, f := range c.Frames {
		body := f.Body
		if f.Mode == "enc" {
			if c.Phase == "post" {
				enc, err := crypto.AesEncrypt(append([]byte(nil), body...), key)
				if err != nil {
					return nil, fmt.Errorf("harness: encrypt: %v", err)
				}
				body = enc
			} else {
				enc, err := ecies.Encrypt(rnd, ecies.ImportECDSAPublic(&srvKey.PublicKey), body, nil, nil)
				if err != nil {
					return nil, fmt.Errorf("harness: ecies: %v", err)
				}
				body = enc
			}
		}
		l := uint32(len(body))
		if f.ClaimLen != nil {
			l = *f.ClaimLen
		}
		hdr := make([]byte, 6)
		copy(hdr, f.Magic)
		binary.BigEndian.PutUint32(hdr[2:], l)
		if f.Cut >= 0 && f.Cut < len(body) {
			body = body[:f.Cut]
		}
		stream = append(stream, hdr...)
		stream = append(stream, body...)
	}
	stream = append(stream, c.Junk...)
	sample := func() {
		h := heapNow()
		if h > out.base && h-out.base > uint64(memConst)+uint64(memPerByte)*uint64(out.sent) {
			// HeapAlloc counts garbage that is not collected yet (the harness's own, too): only what survives a collection is held
			runtime.GC()
			h = heapNow()
		}
		if h > out.peak {
			out.peak = h
		}
	}
	// write in the given splits; a write error means the node hung up
	pos, si := 0, 0
	for pos < len(stream) {
		n := len(stream) - pos
		if len(c.Splits) > 0 {
			if s := c.Splits[si%len(c.Splits)]; s > 0 && s < n {
				n = s
			}
			si++
		}
		cliConn.SetWriteDeadline(time.Now().Add(20 * time.Second))
		w, err := cliConn.Write(stream[pos : pos+n])
		out.sent += w
		pos += w
		sample()
		if err != nil {
			out.connClosed = true
			break
		}
	}
	// the node now sits on whatever it allocated for the bytes it got
	for _, d := range []time.Duration{1, 2, 4, 8} {
		time.Sleep(d * time.Millisecond)
		sample()
	}
	cliConn.Close()
	select {
	case <-runDone:
		out.runEnded = true
	case <-time.After(30 * time.Second):
	}
	if c.Phase == "pre" {
		select {
		case err := <-hsDone:
			out.srvErr = err
			out.handshook = err == nil
		default:
		}
	}
	select {
	case out.msgs = <-msgCount:
	case <-time.After(5 * time.Second):
	}
	return out, nil
}

func genFrame(t *rapid.T, phase string) Frame {
	f := Frame{Magic: []byte{0x5a, 0x48}, Cut: -1, Mode: "raw"}
	if rapid.IntRange(0, 7).Draw(t, "badMagic") == 0 {
		f.Magic = rapid.SliceOfN(rapid.Byte(), 2, 2).Draw(t, "magic")
	}
	switch rapid.IntRange(0, 5).Draw(t, "bodyKind") {
	case 0: // ciphertext of any length, also not a multiple of the block size
		f.Body = rapid.SliceOfN(rapid.Byte(), 0, 200).Draw(t, "rawBody")
	case 1: // a big body
		n := rapid.SampledFrom([]int{4096, 65535, 65536, 70001}).Draw(t, "bigLen")
		f.Body = make([]byte, n)
		for i := range f.Body {
			f.Body[i] = byte(i * 7)
		}
	case 2: // well encrypted, plaintext shorter than a message code
		f.Mode = "enc"
		f.Body = rapid.SliceOfN(rapid.Byte(), 0, 3).Draw(t, "shortPlain")
	case 3: // well encrypted, any code with any payload
		f.Mode = "enc"
		code := rapid.SampledFrom([]uint32{0, 1, 2, 3, 6, 8, 9, 0x0e, 0x1f, 0x20, 0xffffffff}).Draw(t, "code")
		f.Body = make([]byte, 4)
		binary.BigEndian.PutUint32(f.Body, code)
		f.Body = append(f.Body, rapid.SliceOfN(rapid.Byte(), 0, 120).Draw(t, "payload")...)
	case 4: // exactly block-sized garbage (passes the length test, fails or passes unpadding)
		n := 16 * rapid.IntRange(1, 5).Draw(t, "blocks")
		f.Body = rapid.SliceOfN(rapid.Byte(), n, n).Draw(t, "blockBody")
	case 5:
		f.Mode = "enc"
		f.Body = rapid.SliceOfN(rapid.Byte(), 0, 300).Draw(t, "plain")
	}
	if phase == "pre" && f.Mode == "enc" && rapid.Bool().Draw(t, "authShaped") {
		// a plaintext shaped like the authentication request: RLP list of three strings of any size
		sig := rapid.SliceOfN(rapid.Byte(), 0, 70).Draw(t, "sig")
		pub := rapid.SliceOfN(rapid.Byte(), 0, 70).Draw(t, "pub")
		if rapid.Bool().Draw(t, "realPub") {
			pub = crypto.PrivateKeyToNodeID(cliKey)
		}
		nonce := rapid.SliceOfN(rapid.Byte(), 0, 40).Draw(t, "nonce")
		f.Body = encList(encStr(sig), encStr(pub), encStr(nonce))
	}
	switch rapid.IntRange(0, 5).Draw(t, "claim") {
	case 0, 2:
		v := rapid.SampledFrom([]uint32{1 << 30, 25<<20 + 1, 64 << 10, 64<<10 + 1, 512 << 20, 25 << 20, ^uint32(0), 1<<30 + 1, 1 << 31, 0, 1, 15, 16, 17, 1<<31 - 1}).Draw(t, "claimLen")
		f.ClaimLen = &v
	case 1:
		v := uint32(len(f.Body) + rapid.IntRange(-20, 4000).Draw(t, "claimDelta"))
		f.ClaimLen = &v
	}
	if rapid.IntRange(0, 4).Draw(t, "cut") == 0 {
		f.Cut = rapid.IntRange(0, 64).Draw(t, "cutAt")
	}
	return f
}

func genFrameCase(t *rapid.T) *FrameCase {
	c := &FrameCase{Phase: rapid.SampledFrom([]string{"pre", "post", "post"}).Draw(t, "phase")}
	n := rapid.IntRange(0, 4).Draw(t, "frames")
	for i := 0; i < n; i++ {
		c.Frames = append(c.Frames, genFrame(t, c.Phase))
	}
	if n == 0 || rapid.IntRange(0, 3).Draw(t, "withJunk") == 0 {
		c.Junk = rapid.SliceOfN(rapid.Byte(), 0, 100).Draw(t, "junk")
	}
	c.Splits = rapid.SliceOfN(rapid.IntRange(1, 40), 0, 4).Draw(t, "splits")
	c.Seed = rapid.SliceOfN(rapid.Byte(), 4, 4).Draw(t, "seed")
	return c
}

func judgeFrameCase(c *FrameCase, o *frameOutcome) string {
	limit := uint64(memConst) + uint64(memPerByte)*uint64(o.sent)
	if o.peak > o.base && o.peak-o.base > limit {
		return fmt.Sprintf("the node holds %d MiB more heap after receiving %d bytes (bound: %d MiB + %d per byte)", (o.peak-o.base)>>20, o.sent, memConst>>20, memPerByte)
	}
	if !o.runEnded {
		return "the peer's goroutines did not end within 30 s after the remote closed the connection"
	}
	return ""
}

func TestC15Frames(t *testing.T) {
	var rc FrameCase
	if sim.ReplayCase(&rc) {
		o, err := runFrameCase(&rc)
		if err != nil {
			t.Fatal(err)
		}
		if msg := judgeFrameCase(&rc, o); msg != "" {
			t.Fatalf("%s\ncase: %+v", msg, rc)
		}
		return
	}
	rapid.Check(t, func(rt *rapid.T) {
		sim.ResetGlobals()
		c := genFrameCase(rt)
		sim.Journal(c)
		o, err := runFrameCase(c)
		if err != nil {
			rt.Fatalf("%v", err)
		}
		if msg := judgeFrameCase(c, o); msg != "" {
			rt.Fatalf("%s\ncase: %+v", msg, *c)
		}
		sim.JournalDone()
		passedGate := o.msgs > 0 || (c.Phase == "pre" && o.srvErr != nil && o.srvErr != p2p.ErrUnavailablePackage && o.srvErr != io.EOF && o.srvErr != io.ErrUnexpectedEOF)
		cls := []string{"phase-" + c.Phase, fmt.Sprintf("frames%d", len(c.Frames)), fmt.Sprintf("msgs-delivered=%v", o.msgs > 0), fmt.Sprintf("node-hung-up=%v", o.connClosed)}
		if c.Phase == "pre" {
			cls = append(cls, fmt.Sprintf("pre-result:%v", o.srvErr))
		}
		sim.Case("frames", sim.HashOf(fmt.Sprintf("%+v", *c)), passedGate, cls, func() interface{} { return c })
	})
}

// minimal RLP encoders for shaped plaintexts
func encStr(b []byte) []byte {
	if len(b) == 1 && b[0] < 0x80 {
		return b
	}
	return append(encLen(len(b), 0x80), b...)
}

func encList(items ...[]byte) []byte {
	var body []byte
	for _, it := range items {
		body = append(body, it...)
	}
	return append(encLen(len(body), 0xc0), body...)
}

func encLen(n int, off byte) []byte {
	if n < 56 {
		return []byte{off + byte(n)}
	}
	var be []byte
	for x := n; x > 0; x >>= 8 {
		be = append([]byte{byte(x)}, be...)
	}
	return append([]byte{off + 55 + byte(len(be))}, be...)
}
