// C15 — unit "messages": well-framed protocol messages with hostile payloads (structure-aware mutations of valid payloads
// of every message type, absurd but decodable blocks / confirms / transactions) delivered to the REAL ProtocolManager of a
// real node through a scripted transport. The process must survive, must not hold memory out of proportion, and the node
// must still answer and still accept the next valid block afterwards.
package c15

import (
	"fmt"
	"math/big"
	"os"
	"runtime"
	"strings"
	"testing"
	"time"

	"verif/sim"

	"github.com/LemoFoundationLtd/lemochain-core/chain/types"
	"github.com/LemoFoundationLtd/lemochain-core/common"
	"github.com/LemoFoundationLtd/lemochain-core/common/rlp"
	"github.com/LemoFoundationLtd/lemochain-core/network"
	"github.com/LemoFoundationLtd/lemochain-core/network/p2p"
	"pgregory.net/rapid"
)

// WireMsg is one message of the journaled case.
type WireMsg struct {
	Code      uint32 `json:"code"`
	Payload   []byte `json:"payload"`
	Note      string `json:"note"`
	Handshake bool   `json:"handshake"` // deliver as the answer to the protocol handshake of a fresh connection
}

// MsgCase is everything needed to run the case again: the chain is rebuilt deterministically from (Deputies, Prefix).
type MsgCase struct {
	Deputies int       `json:"deputies"`
	Prefix   int       `json:"prefix"`
	Stage    string    `json:"stage"` // what the harness was doing when the journal was written
	Msgs     []WireMsg `json:"msgs"`
}

type chainCtx struct {
	s    *sim.Scenario
	head *types.Block
	x    *types.Block // the valid next block, known to the factory only
	all  []*types.Block
}

func buildCtx(d, prefix int) *chainCtx {
	s := sim.NewScenario(d, sim.Weights{Transfer: 1})
	c := &chainCtx{s: s}
	for i := 0; i < prefix; i++ {
		parent := s.Head()
		tx := sim.Transfer(s.W.Founder, s.W.Users[i%len(s.W.Users)].Addr, sim.Lemo(int64(10+i)), uint64(parent.Time())+1000)
		b := s.F.MineNext(parent, types.Transactions{tx})
		if err := s.V.Insert(sim.DecodeBlock(sim.EncodeBlock(b))); err != nil {
			panic(fmt.Sprintf("harness: prefix block rejected: %v", err))
		}
	}
	c.head = s.Head()
	for h := uint32(0); h <= c.head.Height(); h++ {
		c.all = append(c.all, s.F.BC.GetBlockByHeight(h))
	}
	tx := sim.Transfer(s.W.Founder, s.W.Users[0].Addr, sim.Lemo(77), uint64(c.head.Time())+1000)
	c.x = s.F.MineNext(c.head, types.Transactions{tx})
	return c
}

func enc(v interface{}) []byte {
	buf, err := rlp.EncodeToBytes(v)
	if err != nil {
		panic(err)
	}
	return buf
}

var hostileNodes = []string{
	strings.Repeat("z", 128) + "@1.2.3.4:7001", strings.Repeat("ab", 64) + "@1.2.3.4:7001", "", "@", "@:", "abc", strings.Repeat("ab", 64) + "@", strings.Repeat("ab", 64) + "@1.2.3.4:99999999",
	strings.Repeat("ab", 64) + "@[::1]:7001", strings.Repeat("ab", 64) + "@host:port", strings.Repeat("ab", 63) + "@1.2.3.4:7001", strings.Repeat("a", 100000), strings.Repeat("ab", 64) + "@1.2.3.4:7001@x",
	"0x" + strings.Repeat("ab", 63) + "@1.2.3.4:7001", strings.Repeat("ab", 64) + "@1.2.3.4:-1", strings.Repeat("ab", 64) + "@1.2.3.4:0", strings.Repeat("\x00", 128) + "@1.2.3.4:1",
}

// hostileTx builds a signed transaction of any type whose fields or JSON document are absurd.
func hostileTx(t *rapid.T, w *sim.World, exp uint64, depth int) (*types.Transaction, string) {
	from := w.Users[rapid.IntRange(0, len(w.Users)-1).Draw(t, "txFrom")]
	if rapid.IntRange(0, 2).Draw(t, "founder") == 0 {
		from = w.Founder
	}
	to := w.Users[rapid.IntRange(0, len(w.Users)-1).Draw(t, "txTo")].Addr
	code := common.HexToHash("0x11")
	kind := rapid.SampledFrom(jsonKinds).Draw(t, "txKind")
	base := baseTxOf(t, w, from, to, code, exp, kind, depth)
	spec := sim.TxSpec{Type: base.Type(), From: from.Addr, To: base.To(), Amount: base.Amount(), GasLimit: base.GasLimit(), Data: base.Data(), Exp: exp, Message: base.Message()}
	var notes []string
	for i, n := 0, rapid.IntRange(0, 2).Draw(t, "nTxMuts"); i < n; i++ {
		switch rapid.IntRange(0, 8).Draw(t, "txMut") {
		case 0: // the whole document replaced ("null" first: it decodes into nil pointers and nil maps)
			spec.Data = []byte(hostileJSON[rapid.IntRange(0, len(hostileJSON)-1).Draw(t, "wholeDoc")])
			notes = append(notes, "data="+string(spec.Data[:min(len(spec.Data), 12)]))
		case 1, 2:
			if len(spec.Data) > 0 && spec.Data[0] == '{' {
				var note string
				spec.Data, note = mutateJSON(t, spec.Data)
				notes = append(notes, note)
			} else {
				spec.Data = []byte(hostileJSON[rapid.IntRange(0, len(hostileJSON)-1).Draw(t, "dataJSON")])
				notes = append(notes, "data=json")
			}
		case 3:
			spec.Type = uint16(rapid.SampledFrom([]int{0, 1, 2, 3, 4, 5, 6, 7, 8, 9, 10, 11, 255, 65535}).Draw(t, "type"))
			notes = append(notes, fmt.Sprintf("type=%d", spec.Type))
		case 4:
			if spec.To == nil {
				spec.To = &to
			} else {
				spec.To = nil
			}
			notes = append(notes, "to-flipped")
		case 5:
			spec.Amount = rapid.SampledFrom([]*big.Int{new(big.Int).Lsh(big.NewInt(1), 255), new(big.Int).Sub(new(big.Int).Lsh(big.NewInt(1), 256), big.NewInt(1)), new(big.Int).Lsh(big.NewInt(1), 300), big.NewInt(0)}).Draw(t, "amount")
			notes = append(notes, "amount")
		case 6:
			spec.GasLimit = rapid.SampledFrom([]uint64{0, 1, 20999, 1 << 63, ^uint64(0)}).Draw(t, "gasLimit")
			spec.GasPrice = rapid.SampledFrom([]*big.Int{big.NewInt(0), big.NewInt(1), new(big.Int).Lsh(big.NewInt(1), 255)}).Draw(t, "gasPrice")
			notes = append(notes, "gas")
		case 7:
			spec.ToName = rapid.SampledFrom([]string{strings.Repeat("n", 101), "a b", "\x00", strings.Repeat("n", 100)}).Draw(t, "toName")
			spec.Message = strings.Repeat("m", rapid.SampledFrom([]int{1024, 1025, 100000}).Draw(t, "msgLen"))
			notes = append(notes, "names")
		case 8:
			spec.Data = rapid.SliceOfN(rapid.Byte(), 0, 50).Draw(t, "dataBytes")
			notes = append(notes, "data=bytes")
		}
	}
	tx := signOrJunk(spec.Build(), from, &notes)
	switch rapid.IntRange(0, 9).Draw(t, "sigMut") {
	case 0:
		tx = sim.WithSigs(tx, nil)
		notes = append(notes, "no-sigs")
	case 1:
		tx = sim.WithSigs(tx, [][]byte{rapid.SliceOfN(rapid.Byte(), 0, 70).Draw(t, "junkSig")})
		notes = append(notes, "junk-sig")
	case 2:
		s := tx.Sigs()
		var many [][]byte
		for i := 0; i < rapid.SampledFrom([]int{2, 300}).Draw(t, "nsigs"); i++ {
			many = append(many, s[0])
		}
		tx = sim.WithSigs(tx, many)
		notes = append(notes, "many-sigs")
	}
	return tx, kind + "(" + strings.Join(notes, ",") + ")"
}

var jsonKinds = []string{"box", "register", "createAsset", "issue", "replenish", "modifyAsset", "transferAsset", "signers", "transfer", "create", "vote"}

// baseTxOf builds a well-formed transaction of the given kind.
func baseTxOf(t *rapid.T, w *sim.World, from *sim.Actor, to common.Address, code common.Hash, exp uint64, kind string, depth int) *types.Transaction {
	var base *types.Transaction
	switch kind {
	case "transfer":
		base = sim.Transfer(from, to, sim.Lemo(1), exp)
	case "create":
		base = sim.CreateContract(from, sim.Lemo(0), rapid.SliceOfN(rapid.Byte(), 1, 40).Draw(t, "initCode"), 200000, exp)
	case "vote":
		base = sim.Vote(from, to, exp)
	case "register":
		base = sim.Register(from, sim.Lemo(0), true, nil, exp)
	case "createAsset":
		base = sim.CreateAsset(from, uint32(rapid.IntRange(0, 4).Draw(t, "category")), true, exp, "n")
	case "issue":
		base = sim.IssueAsset(from, to, code, "100", exp, "n")
	case "replenish":
		base = sim.ReplenishAsset(from, to, code, code, "5", exp, "n")
	case "modifyAsset":
		base = sim.ModifyAsset(from, code, map[string]string{"name": "x"}, exp, "n")
	case "transferAsset":
		base = sim.TransferAsset(from, to, code, "5", exp, "n")
	case "signers":
		base = sim.ModifySigners(from, []sim.SignerSpec{{Actor: w.Users[0], Weight: 60}, {Actor: w.Users[1], Weight: 50}}, exp)
	case "box":
		var subs types.Transactions
		for i, n := 0, rapid.IntRange(1, 2).Draw(t, "nsubs"); i < n; i++ {
			if depth < 1 && rapid.Bool().Draw(t, "hostileSub") {
				sub, _ := hostileTx(t, w, exp, depth+1)
				subs = append(subs, sub)
			} else {
				subs = append(subs, sim.Transfer(from, to, sim.Lemo(int64(2+i)), exp))
			}
		}
		base = sim.Box(from, subs, 300000, exp)
	}
	return base
}

// poisonedPoolScript: blocks a deputy with a poisoned pool would mine: every transaction is of another kind and carries a whole
// hostile document as its data (the documents that decode into nil pointers, nil maps and empty lists first).
func poisonedPoolScript(t *rapid.T, c *chainCtx) []WireMsg {
	w := c.s.W
	dep := c.s.F.DeputyAt(c.x.Height(), c.s.F.RankOf(c.x.Height(), c.x.MinerAddress()))
	var res []WireMsg
	for b, nb := 0, rapid.IntRange(1, 2).Draw(t, "poisonedBlocks"); b < nb; b++ {
		var txs types.Transactions
		var names []string
		for i, n := 0, rapid.IntRange(2, 4).Draw(t, "poisonedTxs"); i < n; i++ {
			kind := jsonKinds[rapid.IntRange(0, 7).Draw(t, "poisonedKind")]
			doc := hostileJSON[rapid.IntRange(0, len(hostileJSON)-1).Draw(t, "poisonedDoc")]
			from := w.Users[rapid.IntRange(0, len(w.Users)-1).Draw(t, "poisonedFrom")]
			base := baseTxOf(t, w, from, w.Founder.Addr, common.HexToHash("0x11"), uint64(c.head.Time())+900, kind, 1)
			spec := sim.TxSpec{Type: base.Type(), From: from.Addr, To: base.To(), Amount: base.Amount(), GasLimit: base.GasLimit(), Data: []byte(doc), Exp: uint64(c.head.Time()) + 900}
			var notes []string
			txs = append(txs, signOrJunk(spec.Build(), from, &notes))
			names = append(names, fmt.Sprintf("%s(data=%s)", kind, doc[:min(len(doc), 10)]))
		}
		sim.Journal(&MsgCase{Deputies: len(w.Deputies), Prefix: len(c.all) - 2, Stage: "factory assembles a block from: " + strings.Join(names, " ")})
		hdr := sim.Header(c.head, c.x.MinerAddress(), c.x.Time(), fmt.Sprintf("poisoned%d", b))
		nb2, _, err := c.s.F.Assemble(dep, hdr, txs)
		if err != nil || nb2 == nil {
			continue
		}
		bs := types.Blocks{nb2}
		res = append(res, WireMsg{Code: uint32(p2p.BlocksMsg), Payload: enc(&bs), Note: fmt.Sprintf("poisoned-pool block[%d of %s]", len(nb2.Txs), strings.Join(names, " "))})
		// the same transactions as gossip
		var items []*item
		for _, tx := range txs {
			if it, _, ok := parseItem(enc(tx)); ok {
				items = append(items, it)
			}
		}
		res = append(res, WireMsg{Code: uint32(p2p.TxsMsg), Payload: (&item{list: true, kids: items}).enc(), Note: "poisoned-pool gossip " + strings.Join(names, " ")})
	}
	return res
}

// signOrJunk signs with the product's signer; where the product's own hashing cannot cope with the document (the remote
// would use his own tooling) the transaction goes out with a made-up signature.
func signOrJunk(tx *types.Transaction, from *sim.Actor, notes *[]string) (res *types.Transaction) {
	defer func() {
		if r := recover(); r != nil {
			*notes = append(*notes, "unsignable-with-product-code")
			res = sim.WithSigs(tx, [][]byte{make([]byte, 65)})
		}
	}()
	return sim.Sign(tx, from.Key)
}

// genMsg produces one hostile message for the context.
func genMsg(t *rapid.T, c *chainCtx, now uint64) WireMsg {
	w := c.s.W
	anyHash := func() common.Hash {
		switch rapid.IntRange(0, 3).Draw(t, "hashKind") {
		case 0:
			return c.head.Hash()
		case 1:
			return c.x.Hash()
		case 2:
			return c.all[rapid.IntRange(0, len(c.all)-1).Draw(t, "knownBlock")].Hash()
		}
		return common.BytesToHash(rapid.SliceOfN(rapid.Byte(), 32, 32).Draw(t, "hash"))
	}
	anyHeight := func() uint32 {
		return rapid.SampledFrom([]uint32{c.head.Height(), c.head.Height() + 1, 0, 1, c.head.Height() + 2, 1000, 1<<31 - 1, 1 << 31, ^uint32(0) - 1, ^uint32(0)}).Draw(t, "height")
	}
	anySig := func() types.SignData {
		switch rapid.IntRange(0, 3).Draw(t, "sigKind") {
		case 0:
			return sim.ConfirmAs(c.x, w.Deputies[rapid.IntRange(0, len(w.Deputies)-1).Draw(t, "signer")])
		case 1:
			return sim.ConfirmAs(c.head, w.Deputies[rapid.IntRange(0, len(w.Deputies)-1).Draw(t, "signer")])
		case 2:
			return sim.ConfirmAs(c.x, w.Outsider)
		}
		var s types.SignData
		copy(s[:], rapid.SliceOfN(rapid.Byte(), 65, 65).Draw(t, "sigBytes"))
		return s
	}
	code := rapid.SampledFrom([]uint32{8, 6, 8, 8, 6, 9, 0x0b, 0x0d, 3, 5, 7, 0x0a, 0x0c, 0x0e, 4, 2, 0, 1, 0x0f, 0x1f, 0x20, 0xffffffff}).Draw(t, "code")
	var valid []byte
	note := ""
	switch p2p.MsgCode(code) {
	case p2p.LstStatusMsg:
		valid = enc(&network.LatestStatus{CurHeight: anyHeight(), CurHash: anyHash(), StaHeight: anyHeight(), StaHash: anyHash()})
	case p2p.GetLstStatusMsg:
		valid = enc(&network.GetLatestStatus{Revert: anyHeight()})
	case p2p.BlockHashMsg:
		valid = enc(&network.BlockHashData{Height: anyHeight(), Hash: anyHash()})
	case p2p.GetBlocksMsg, p2p.GetBlocksWithChangeLogMsg:
		valid = enc(&network.GetBlocksData{From: anyHeight(), To: anyHeight()})
	case p2p.ConfirmMsg:
		h := anyHash()
		valid = enc(&network.BlockConfirmData{Hash: h, Height: anyHeight(), SignInfo: anySig()})
	case p2p.GetConfirmsMsg:
		valid = enc(&network.GetConfirmInfo{Height: anyHeight(), Hash: anyHash()})
	case p2p.ConfirmsMsg:
		var pack []types.SignData
		for i, n := 0, rapid.SampledFrom([]int{0, 1, 3, 200, 10000}).Draw(t, "packLen"); i < n; i++ {
			if i < 4 {
				pack = append(pack, anySig())
			} else {
				pack = append(pack, pack[i%4])
			}
		}
		valid = enc(&network.BlockConfirms{Height: anyHeight(), Hash: anyHash(), Pack: pack})
	case p2p.DiscoverReqMsg:
		valid = enc(&network.DiscoverReqData{Sequence: uint(rapid.SampledFrom([]uint64{0, 1, 2, 1 << 40, 1<<63 - 1}).Draw(t, "sequence"))})
	case p2p.DiscoverResMsg:
		var nodes []string
		for i, n := 0, rapid.IntRange(0, 4).Draw(t, "nnodes"); i < n; i++ {
			nodes = append(nodes, hostileNodes[rapid.IntRange(0, len(hostileNodes)-1).Draw(t, "node")])
		}
		valid = enc(&network.DiscoverResData{Sequence: 1, Nodes: nodes})
	case p2p.ProHandshakeMsg:
		hs := &network.ProtocolHandshake{ChainID: uint16(rapid.SampledFrom([]int{int(sim.ChainID), 0, 1, 65535}).Draw(t, "hsChain")), GenesisHash: anyHash(), NodeVersion: anyHeight(),
			LatestStatus: network.LatestStatus{CurHeight: anyHeight(), CurHash: anyHash(), StaHeight: anyHeight(), StaHash: anyHash()}}
		if rapid.Bool().Draw(t, "rightGenesis") {
			hs.GenesisHash = c.all[0].Hash()
			hs.ChainID = sim.ChainID
		}
		valid = hs.Bytes()
	case p2p.TxsMsg:
		var items []*item
		var names []string
		for i, n := 0, rapid.IntRange(1, 3).Draw(t, "ntxs"); i < n; i++ {
			tx, name := hostileTx(t, w, now+600, 0)
			it, _, ok := parseItem(enc(tx))
			if !ok {
				panic("harness: tx encoding does not parse")
			}
			items = append(items, it)
			names = append(names, name)
		}
		valid = (&item{list: true, kids: items}).enc()
		note = strings.Join(names, " ")
	case p2p.BlocksMsg:
		var b *types.Block
		switch (rapid.IntRange(0, 4).Draw(t, "blockKind") + 4) % 5 { // (the absurd-header kind first: rapid favours small draws)
		case 0, 1: // the valid next block (to be damaged below)
			b = sim.CloneBlock(c.x)
			note = "X"
		case 2: // a consistent block the factory assembles from hostile transactions (what a deputy with a poisoned pool would mine)
			var txs types.Transactions
			var names []string
			for i, n := 0, rapid.IntRange(1, 3).Draw(t, "nblocktxs"); i < n; i++ {
				tx, name := hostileTx(t, w, uint64(c.head.Time())+900, 0)
				txs = append(txs, tx)
				names = append(names, name)
			}
			sim.Journal(&MsgCase{Deputies: len(w.Deputies), Prefix: len(c.all) - 2, Stage: "factory assembles a block from: " + strings.Join(names, " ")})
			dep := c.s.F.DeputyAt(c.x.Height(), c.s.F.RankOf(c.x.Height(), c.x.MinerAddress()))
			hdr := sim.Header(c.head, c.x.MinerAddress(), c.x.Time(), "h")
			nb, _, err := c.s.F.Assemble(dep, hdr, txs)
			if err != nil || nb == nil {
				b = sim.CloneBlock(c.x)
				note = "X(assemble failed)"
			} else {
				b = nb
				note = fmt.Sprintf("assembled[%d of %s]", len(nb.Txs), strings.Join(names, " "))
			}
		case 3: // an orphan far ahead
			b = sim.CloneBlock(c.x)
			b.Header.ParentHash = anyHash()
			b.Header.Height = anyHeight()
			note = "orphan"
		case 4: // the next block with an absurd number in a scalar header field, signed by its deputy
			b = sim.CloneBlock(c.x)
			switch rapid.IntRange(0, 3).Draw(t, "absurdField") {
			case 0:
				b.Header.Time = rapid.SampledFrom([]uint32{0, 1, 9999999, 10000000, ^uint32(0)}).Draw(t, "absurdTime")
			case 1:
				b.Header.GasLimit = rapid.SampledFrom([]uint64{0, 1, ^uint64(0)}).Draw(t, "absurdGasLimit")
			case 2:
				b.Header.GasUsed = rapid.SampledFrom([]uint64{0, ^uint64(0)}).Draw(t, "absurdGasUsed")
			default:
				b.Header.Height = rapid.SampledFrom([]uint32{0, ^uint32(0)}).Draw(t, "absurdHeight")
			}
			if dep := w.DeputyByMiner(c.x.MinerAddress()); dep != nil {
				sim.SignBlockAs(b, dep)
			}
			note = "X-absurd-header"
		}
		bs := types.Blocks{b}
		valid = enc(&bs)
	default:
		valid = rapid.SliceOfN(rapid.Byte(), 0, 40).Draw(t, "otherPayload")
	}
	payload, how := valid, "as-built"
	if !strings.HasPrefix(note, "X-absurd-header") {
		payload, how = mutatePayload(t, valid)
	}
	// a block whose fields were damaged is signed again by the deputy in turn when it still decodes: the checks behind the signature are the interesting ones
	if p2p.MsgCode(code) == p2p.BlocksMsg && how != "valid" && rapid.Bool().Draw(t, "resign") {
		var bs types.Blocks
		if err := rlp.DecodeBytes(payload, &bs); err == nil {
			ok := len(bs) > 0
			for _, b := range bs {
				if b == nil || b.Header == nil {
					ok = false
				}
			}
			if ok {
				for _, b := range bs {
					if dep := w.DeputyByMiner(c.x.MinerAddress()); dep != nil {
						sim.SignBlockAs(b, dep)
					}
				}
				payload = enc(&bs)
				how += "+resigned"
			}
		}
	}
	return WireMsg{Code: code, Payload: payload, Note: strings.TrimSpace(note + " " + how), Handshake: rapid.IntRange(0, 9).Draw(t, "asHandshake") == 0}
}

// equivocationScript: a deputy who signs two different blocks for one height (the node blacklists him), with blocks of his
// parked out of order before and delivered again afterwards. All blocks are well-formed; only their combination is absurd.
func equivocationScript(t *rapid.T, c *chainCtx) []WireMsg {
	dep := c.s.W.DeputyByMiner(c.x.MinerAddress())
	mk := func(b *types.Block, note string) WireMsg {
		bs := types.Blocks{b}
		return WireMsg{Code: uint32(p2p.BlocksMsg), Payload: enc(&bs), Note: note}
	}
	var pool []WireMsg
	// orphans signed by the same deputy at generated heights above the head
	for i, n := 0, rapid.IntRange(1, 3).Draw(t, "orphans"); i < n; i++ {
		o := sim.CloneBlock(c.x)
		o.Header.ParentHash = common.BytesToHash([]byte{byte(i + 1), 0xee})
		o.Header.Height = c.x.Height() + uint32(rapid.IntRange(1, 4).Draw(t, "orphanAhead"))
		o.Header.Extra = fmt.Sprintf("orphan%d", i)
		sim.SignBlockAs(o, dep)
		pool = append(pool, mk(o, fmt.Sprintf("orphan%d@%d", i, o.Height())))
	}
	// the second block for X's height
	hdr := sim.Header(c.head, c.x.MinerAddress(), c.x.Time(), "second")
	if twin, _, err := c.s.F.Assemble(dep, hdr, nil); err == nil && twin != nil {
		pool = append(pool, mk(twin, "twin-of-X"))
	}
	pool = append(pool, mk(sim.CloneBlock(c.x), "X"))
	order := rapid.Permutation(pool).Draw(t, "scriptOrder")
	// ... and some of them once more
	for i, n := 0, rapid.IntRange(1, 3).Draw(t, "again"); i < n; i++ {
		m := pool[rapid.IntRange(0, len(pool)-1).Draw(t, "againWhich")]
		m.Note += "(again)"
		order = append(order, m)
	}
	return order
}

// absurdHeaderScript: the next block with absurd numbers in its scalar header fields, each signed by the deputy in turn (the checks
// behind the signature see them).
func absurdHeaderScript(t *rapid.T, c *chainCtx) []WireMsg {
	dep := c.s.W.DeputyByMiner(c.x.MinerAddress())
	var res []WireMsg
	for i, n := 0, rapid.IntRange(1, 3).Draw(t, "absurdBlocks"); i < n; i++ {
		b := sim.CloneBlock(c.x)
		what := ""
		switch rapid.IntRange(0, 4).Draw(t, "absurdField") {
		case 0, 1:
			b.Header.Time = rapid.SampledFrom([]uint32{0, 1, 9999999, 10000000, c.head.Time() - 1, ^uint32(0)}).Draw(t, "absurdTime")
			what = fmt.Sprintf("time=%d", b.Header.Time)
		case 2:
			b.Header.GasLimit = rapid.SampledFrom([]uint64{0, 1, ^uint64(0)}).Draw(t, "absurdGasLimit")
			what = fmt.Sprintf("gasLimit=%d", b.Header.GasLimit)
		case 3:
			b.Header.GasUsed = rapid.SampledFrom([]uint64{0, ^uint64(0)}).Draw(t, "absurdGasUsed")
			what = fmt.Sprintf("gasUsed=%d", b.Header.GasUsed)
		default:
			b.Header.Height = rapid.SampledFrom([]uint32{0, ^uint32(0), c.x.Height() + 1}).Draw(t, "absurdHeight")
			what = fmt.Sprintf("height=%d", b.Header.Height)
		}
		if rapid.Bool().Draw(t, "noTxs") { // without transactions the block is not stopped at their lifetime window
			b.Txs = nil
			b.Header.TxRoot = b.Txs.MerkleRootSha()
			what += " no-txs"
		}
		if dep != nil {
			sim.SignBlockAs(b, dep)
		}
		bs := types.Blocks{b}
		res = append(res, WireMsg{Code: uint32(p2p.BlocksMsg), Payload: enc(&bs), Note: "X-absurd-header " + what})
	}
	return res
}

// spins: a block request whose range makes respBlocks loop for minutes (CPU, not memory: outside the statement; excluded to keep the harness usable)
func spins(m WireMsg, cur uint32) bool {
	if m.Code != uint32(p2p.GetBlocksMsg) && m.Code != uint32(p2p.GetBlocksWithChangeLogMsg) {
		return false
	}
	var q network.GetBlocksData
	if err := rlp.DecodeBytes(m.Payload, &q); err != nil {
		return false
	}
	return q.From <= q.To && q.From <= cur && q.To-q.From+1 > 200000
}

// msgMemConst: the constant term of the heap bound in this unit. The process also holds the simulated nodes of the cases of the last
// 30 s (a product timer keeps each reachable that long, see sim/node.go) and their winding-down goroutines, so the live heap moves
// by tens of MiB on its own; only a retention far beyond that is attributed to the messages of the case.
const msgMemConst = 512 << 20

type msgOutcome struct {
	sent        int
	base, peak  uint64
	closedConns int
	problem     string
	headMoved   bool
}

func runMsgCase(c *MsgCase, ctx *chainCtx) *msgOutcome {
	o := &msgOutcome{}
	r := ctx.s.V
	nn := r.StartNet()
	g0 := runtime.NumGoroutine()
	runtime.GC()
	o.base = heapNow()
	o.peak = o.base
	sample := func() {
		h := heapNow()
		if h > o.base && h-o.base > uint64(msgMemConst)+uint64(memPerByte)*uint64(o.sent) {
			// HeapAlloc counts garbage that is not collected yet (the harness's own, too): only what survives a collection is held
			runtime.GC()
			h = heapNow()
		}
		if h > o.peak {
			o.peak = h
		}
	}
	var peers []*sim.ScriptPeer
	npeer := 0
	connect := func(hs *WireMsg) *sim.ScriptPeer {
		npeer++
		p := sim.NewScriptPeer(fmt.Sprintf("c15-%d", npeer))
		peers = append(peers, p)
		if hs != nil {
			p.Send(p2p.ProHandshakeMsg, hs.Payload)
			before := nn.PM.VerifPeerCount()
			nn.AddPeer(p)
			// registered or hung up, whichever comes
			waitFor(10*time.Second, func() bool { return p.Closed() || nn.PM.VerifPeerCount() > before })
			return p
		}
		if err := nn.Connect(p, network.LatestStatus{}); err != nil {
			o.problem = "a fresh connection with a valid protocol handshake is not registered within 10 s: " + err.Error()
		}
		return p
	}
	var cur *sim.ScriptPeer
	for i := range c.Msgs {
		m := &c.Msgs[i]
		c.Stage = fmt.Sprintf("delivering message %d of %d", i+1, len(c.Msgs))
		sim.Journal(c)
		if m.Handshake {
			cur = connect(m)
			o.sent += len(m.Payload)
		} else {
			if cur == nil || cur.Closed() {
				if cur != nil {
					o.closedConns++
				}
				cur = connect(nil)
				if o.problem != "" {
					break
				}
			}
			cur.Send(p2p.MsgCode(m.Code), m.Payload)
			o.sent += len(m.Payload)
			waitFor(10*time.Second, func() bool { return cur.Pending() == 0 || cur.Closed() })
		}
		time.Sleep(3 * time.Millisecond)
		sample()
	}
	c.Stage = "probing the node after the messages"
	sim.Journal(c)
	// let asynchronous handlers finish (bounded; not a verdict)
	waitFor(3*time.Second, func() bool { sample(); return runtime.NumGoroutine() <= g0+3*len(peers)+2 })
	if o.problem == "" {
		probe := sim.NewScriptPeer("c15-probe")
		peers = append(peers, probe)
		if err := nn.Connect(probe, network.LatestStatus{}); err != nil {
			o.problem = "after the messages a fresh peer is not registered within 10 s"
		} else {
			probe.SendObj(p2p.GetLstStatusMsg, &network.GetLatestStatus{})
			answered := func() bool {
				for _, m := range probe.Out() {
					if m.Code == p2p.LstStatusMsg {
						return true
					}
				}
				return false
			}
			if !waitFor(30*time.Second, answered) {
				o.problem = "after the messages the node does not answer a status request within 30 s"
			}
			o.headMoved = r.Current().Hash() != ctx.head.Hash() || r.Stable().Height() >= ctx.x.Height()
			if o.problem == "" && !o.headMoved {
				probe.SendBlocks(sim.CloneBlock(ctx.x))
				if !waitFor(30*time.Second, func() bool { return r.BC.HasBlock(ctx.x.Hash()) }) {
					if r.Current().Hash() == ctx.head.Hash() {
						o.problem = "after the messages the node does not insert the valid next block within 30 s (block loop stuck?)"
					}
				}
			}
		}
	}
	sample()
	for _, p := range peers {
		p.Close()
	}
	waitFor(3*time.Second, func() bool { return runtime.NumGoroutine() <= g0+2 })
	nn.StopNet()
	return o
}

func judgeMsgCase(o *msgOutcome) string {
	if o.problem != "" {
		return o.problem
	}
	limit := uint64(msgMemConst) + uint64(memPerByte)*uint64(o.sent)
	if o.peak > o.base && o.peak-o.base > limit {
		return fmt.Sprintf("the node holds %d MiB more heap after receiving %d payload bytes (bound: %d MiB + %d per byte)", (o.peak-o.base)>>20, o.sent, msgMemConst>>20, memPerByte)
	}
	return ""
}

func describe(c *MsgCase) string {
	var parts []string
	for _, m := range c.Msgs {
		hs := ""
		if m.Handshake {
			hs = "as-handshake "
		}
		parts = append(parts, fmt.Sprintf("[%s%s %d bytes: %s]", hs, p2p.MsgCode(m.Code), len(m.Payload), m.Note))
	}
	return strings.Join(parts, " ")
}

func TestC15Messages(t *testing.T) {
	var rc MsgCase
	if sim.ReplayCase(&rc) {
		ctx := buildCtx(rc.Deputies, rc.Prefix)
		defer ctx.s.Close()
		t.Logf("replaying (stage at journal time: %s): %s", rc.Stage, describe(&rc))
		o := runMsgCase(&rc, ctx)
		if msg := judgeMsgCase(o); msg != "" {
			t.Fatalf("%s\nmessages: %s", msg, describe(&rc))
		}
		return
	}
	rapid.Check(t, func(rt *rapid.T) {
		c := &MsgCase{Deputies: rapid.IntRange(2, 3).Draw(rt, "deputies"), Prefix: rapid.IntRange(0, 2).Draw(rt, "prefix")}
		ctx := buildCtx(c.Deputies, c.Prefix)
		defer ctx.s.Close()
		now := uint64(time.Now().Unix())
		excluded := 0
		var scripted []WireMsg
		switch rapid.IntRange(0, 5).Draw(rt, "script") {
		case 0:
			scripted = equivocationScript(rt, ctx)
		case 1:
			scripted = absurdHeaderScript(rt, ctx)
		case 2:
			scripted = poisonedPoolScript(rt, ctx)
		}
		for i, n := 0, rapid.IntRange(1, 5).Draw(rt, "nmsgs"); i < n || len(scripted) > 0; i++ {
			var m WireMsg
			if len(scripted) > 0 && (i >= n || rapid.IntRange(0, 2).Draw(rt, "takeScripted") != 0) {
				m, scripted = scripted[0], scripted[1:]
			} else {
				m = genMsg(rt, ctx, now)
			}
			if spins(m, ctx.head.Height()) {
				excluded++
				sim.Excluded("messages", "block request over more than 200000 heights (CPU loop in respBlocks, not memory)")
				continue
			}
			c.Msgs = append(c.Msgs, m)
		}
		if len(c.Msgs) == 0 {
			rt.Skip("all messages excluded")
		}
		t0 := time.Now()
		o := runMsgCase(c, ctx)
		if os.Getenv("VERIF_DEBUG") != "" {
			fmt.Fprintf(os.Stderr, "case %.2fs: %s\n", time.Since(t0).Seconds(), describe(c))
		}
		if msg := judgeMsgCase(o); msg != "" {
			rt.Fatalf("%s\nmessages: %s", msg, describe(c))
		}
		sim.JournalDone()
		cls := []string{fmt.Sprintf("msgs%d", len(c.Msgs)), fmt.Sprintf("node-hung-up=%v", o.closedConns > 0), fmt.Sprintf("head-moved=%v", o.headMoved)}
		decodable := false
		for _, m := range c.Msgs {
			cls = append(cls, "code-"+p2p.MsgCode(m.Code).String())
			if !strings.Contains(m.Note, "truncated") && !strings.Contains(m.Note, "random") {
				decodable = true
			}
		}
		sim.Case("messages", sim.HashOf(describe(c)), decodable, cls, func() interface{} { return describe(c) })
	})
}

func waitFor(limit time.Duration, cond func() bool) bool {
	deadline := time.Now().Add(limit)
	for {
		if cond() {
			return true
		}
		if time.Now().After(deadline) {
			return false
		}
		time.Sleep(2 * time.Millisecond)
	}
}
