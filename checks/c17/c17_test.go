// C17 — state commitments bind content: trie / Merkle roots depend only on what is stored.
package c17

import (
	"bytes"
	"fmt"
	"os"
	"sort"
	"testing"

	"verif/sim"

	"github.com/LemoFoundationLtd/lemochain-core/common"
	"github.com/LemoFoundationLtd/lemochain-core/common/crypto"
	"github.com/LemoFoundationLtd/lemochain-core/common/merkle"
	"github.com/LemoFoundationLtd/lemochain-core/store"
	"github.com/LemoFoundationLtd/lemochain-core/store/leveldb"
	"github.com/LemoFoundationLtd/lemochain-core/store/trie"
	"pgregory.net/rapid"
)

var sharedDB *store.ChainDatabase
var caseNo int

func TestMain(m *testing.M) {
	sim.Quiet()
	sharedDB = store.NewChainDataBase(sim.NewDir())
	code := m.Run()
	sim.CloseDB(sharedDB)
	os.RemoveAll(sim.TmpRoot())
	os.Exit(code)
}

// anyTrie abstracts Trie and SecureTrie.
type anyTrie interface {
	TryGet(key []byte) ([]byte, error)
	TryUpdate(key, value []byte) error
	TryDelete(key []byte) error
	Hash() common.Hash
	Commit(onleaf trie.LeafCallback) (common.Hash, error)
}

func openTrie(secure bool, root common.Hash, db *store.TrieDatabase, limit uint16) (anyTrie, error) {
	if secure {
		return trie.NewSecure(root, db, limit)
	}
	t, err := trie.New(root, db)
	if err != nil {
		return nil, err
	}
	t.SetCacheLimit(limit)
	return t, nil
}

// key alphabet: few symbols at few positions, so shared prefixes, prefix-of-another-key and Patricia splits are the norm
func genKey() *rapid.Generator[string] {
	return rapid.Custom(func(t *rapid.T) string {
		n := rapid.IntRange(1, 5).Draw(t, "keylen")
		b := make([]byte, n)
		for i := range b {
			b[i] = rapid.SampledFrom([]byte{0x00, 0x01, 0x10, 0x11, 0xa0, 0xff}).Draw(t, "kb")
		}
		if rapid.IntRange(0, 9).Draw(t, "longkey") == 0 {
			b = append(b, bytes.Repeat([]byte{0x22}, 30)...)
		}
		return string(b)
	})
}

func genVal(salt string) *rapid.Generator[[]byte] {
	return rapid.Custom(func(t *rapid.T) []byte {
		switch rapid.IntRange(0, 4).Draw(t, "valkind") {
		case 0:
			return nil // empty value: removes the key
		case 1:
			return []byte{rapid.ByteRange(1, 255).Draw(t, "vb")}
		case 2: // long value: node is stored by hash
			return append([]byte(salt), bytes.Repeat([]byte{rapid.Byte().Draw(t, "fill")}, rapid.IntRange(32, 80).Draw(t, "vlen"))...)
		default:
			return append([]byte(salt), rapid.SliceOfN(rapid.Byte(), 0, 12).Draw(t, "v")...)
		}
	})
}

func modelRoot(t *rapid.T, secure bool, model map[string][]byte, order []string) common.Hash {
	mem, _ := store.NewMemDatabase()
	ft, err := openTrie(secure, common.Hash{}, store.NewTrieDatabase(mem), 0)
	if err != nil {
		t.Fatalf("fresh trie: %v", err)
	}
	for _, k := range order {
		if err := ft.TryUpdate([]byte(k), model[k]); err != nil {
			t.Fatalf("fresh trie update: %v", err)
		}
	}
	return ft.Hash()
}

// recordingReader serves trie nodes from a backing reader and remembers what was asked for (the proof path).
type recordingReader struct {
	back  store.DatabaseReader
	asked []common.Hash
	blobs map[common.Hash][]byte
}

func (r *recordingReader) Get(flg uint32, key []byte) ([]byte, error) {
	v, err := r.back.Get(flg, key)
	if v != nil {
		h := common.BytesToHash(key)
		r.asked = append(r.asked, h)
		r.blobs[h] = common.CopyBytes(v)
	}
	return v, err
}
func (r *recordingReader) Has(flg uint32, key []byte) (bool, error) { return r.back.Has(flg, key) }

// proofSet is what a light client builds from a list of node blobs: a map keyed by the Keccak of each blob.
type proofSet map[common.Hash][]byte

func newProofSet(blobs [][]byte) proofSet {
	p := proofSet{}
	for _, b := range blobs {
		p[crypto.Keccak256Hash(b)] = b
	}
	return p
}
func (p proofSet) Get(flg uint32, key []byte) ([]byte, error) {
	if flg != leveldb.ItemFlagTrie {
		return nil, nil
	}
	return p[common.BytesToHash(key)], nil
}
func (p proofSet) Has(flg uint32, key []byte) (bool, error) {
	_, ok := p[common.BytesToHash(key)]
	return ok, nil
}

type committed struct {
	root    common.Hash
	model   map[string][]byte
	flushed bool
}

func copyModel(m map[string][]byte) map[string][]byte {
	c := make(map[string][]byte, len(m))
	for k, v := range m {
		c[k] = v
	}
	return c
}

func sortedKeys(m map[string][]byte) []string {
	keys := make([]string, 0, len(m))
	for k := range m {
		keys = append(keys, k)
	}
	sort.Strings(keys)
	return keys
}

func TestC17Trie(t *testing.T) {
	rapid.Check(t, func(rt *rapid.T) {
		caseNo++
		salt := fmt.Sprintf("c%d-%d|", os.Getpid(), caseNo) // keeps node blobs of different cases distinct in the shared disk store
		secure := rapid.Bool().Draw(rt, "secure")
		onBeans := rapid.IntRange(0, 2).Draw(rt, "backing") != 0
		var disk store.Database
		if onBeans {
			disk = sharedDB.Beansdb
		} else {
			mem, _ := store.NewMemDatabase()
			disk = mem
		}
		limit := uint16(rapid.IntRange(0, 2).Draw(rt, "cachelimit"))
		tdb := store.NewTrieDatabase(disk)
		tr, err := openTrie(secure, common.Hash{}, tdb, limit)
		if err != nil {
			rt.Fatalf("new trie: %v", err)
		}
		model := map[string][]byte{}
		var history []committed
		var ops []string
		stats := map[string]bool{}

		check := func(what string) {
			for k, want := range model {
				got, err := tr.TryGet([]byte(k))
				if err != nil || !bytes.Equal(got, want) {
					rt.Fatalf("%s: key %x = %x, %v; model says %x\nops: %v", what, k, got, err, want, ops)
				}
			}
		}

		rt.Repeat(map[string]func(*rapid.T){
			"update": func(t *rapid.T) {
				k, v := genKey().Draw(t, "k"), genVal(salt).Draw(t, "v")
				if err := tr.TryUpdate([]byte(k), v); err != nil {
					t.Fatalf("update %x: %v", k, err)
				}
				if len(v) == 0 {
					delete(model, k)
					ops = append(ops, fmt.Sprintf("update(%x, empty)", k))
				} else {
					model[k] = v
					ops = append(ops, fmt.Sprintf("update(%x, %d bytes)", k, len(v)))
				}
			},
			"delete": func(t *rapid.T) {
				var k string
				if keys := sortedKeys(model); len(keys) > 0 && rapid.Bool().Draw(t, "existing") {
					k = rapid.SampledFrom(keys).Draw(t, "dk")
				} else {
					k = genKey().Draw(t, "dk")
				}
				if err := tr.TryDelete([]byte(k)); err != nil {
					t.Fatalf("delete %x: %v", k, err)
				}
				delete(model, k)
				stats["delete"] = true
				ops = append(ops, fmt.Sprintf("delete(%x)", k))
			},
			"get": func(t *rapid.T) {
				k := genKey().Draw(t, "gk")
				got, err := tr.TryGet([]byte(k))
				if err != nil {
					t.Fatalf("get %x: %v", k, err)
				}
				if !bytes.Equal(got, model[k]) {
					t.Fatalf("get %x = %x, model %x\nops: %v", k, got, model[k], ops)
				}
			},
			"hash": func(t *rapid.T) {
				keys := sortedKeys(model)
				want := modelRoot(t, secure, model, keys)
				if got := tr.Hash(); got != want {
					t.Fatalf("root %s differs from the root of a fresh trie with the same content %s (%d keys)\nops: %v", got.Hex(), want.Hex(), len(keys), ops)
				}
				shuffled := rapid.Permutation(keys).Draw(t, "order")
				if other := modelRoot(t, secure, model, shuffled); other != want {
					t.Fatalf("root depends on insertion order: %s vs %s", other.Hex(), want.Hex())
				}
				ops = append(ops, "hash")
			},
			"commit": func(t *rapid.T) {
				root, err := tr.Commit(nil)
				if err != nil {
					t.Fatalf("commit: %v", err)
				}
				history = append(history, committed{root, copyModel(model), false})
				stats["commit"] = true
				ops = append(ops, "commit")
			},
			"flush": func(t *rapid.T) {
				root, err := tr.Commit(nil)
				if err != nil {
					t.Fatalf("commit: %v", err)
				}
				if err := tdb.Commit(root, false); err != nil {
					t.Fatalf("flush: %v", err)
				}
				history = append(history, committed{root, copyModel(model), true})
				stats["flush"] = true
				ops = append(ops, "commit+flush")
			},
			"reopen": func(t *rapid.T) { // same node database (memory layer kept), trie object rebuilt from the root
				root, err := tr.Commit(nil)
				if err != nil {
					t.Fatalf("commit: %v", err)
				}
				history = append(history, committed{root, copyModel(model), false})
				nt, err := openTrie(secure, root, tdb, limit)
				if err != nil {
					t.Fatalf("reopen by root %s: %v\nops: %v", root.Hex(), err, ops)
				}
				tr = nt
				stats["reopen"] = true
				ops = append(ops, "reopen")
				check("after reopen")
			},
			"restart": func(t *rapid.T) { // flush, then a fresh node database on the same disk store: what a restarted node sees
				root, err := tr.Commit(nil)
				if err != nil {
					t.Fatalf("commit: %v", err)
				}
				if err := tdb.Commit(root, false); err != nil {
					t.Fatalf("flush: %v", err)
				}
				history = append(history, committed{root, copyModel(model), true})
				tdb = store.NewTrieDatabase(disk)
				nt, err := openTrie(secure, root, tdb, limit)
				if err != nil {
					t.Fatalf("open flushed root %s on a fresh node database: %v\nops: %v", root.Hex(), err, ops)
				}
				tr = nt
				stats["restart"] = true
				ops = append(ops, "restart")
				check("after restart")
			},
			"oldroot": func(t *rapid.T) { // any flushed older version is still fully readable from disk
				var flushed []committed
				for _, c := range history {
					if c.flushed {
						flushed = append(flushed, c)
					}
				}
				if len(flushed) == 0 {
					t.Skip("nothing flushed yet")
				}
				c := flushed[rapid.IntRange(0, len(flushed)-1).Draw(t, "which")]
				ot, err := openTrie(secure, c.root, store.NewTrieDatabase(disk), limit)
				if err != nil {
					t.Fatalf("open old flushed root: %v", err)
				}
				for k, want := range c.model {
					got, err := ot.TryGet([]byte(k))
					if err != nil || !bytes.Equal(got, want) {
						t.Fatalf("old version %s: key %x = %x, %v; want %x\nops: %v", c.root.Hex(), k, got, err, want, ops)
					}
				}
				stats["oldroot"] = true
			},
			"proof": func(t *rapid.T) {
				if secure {
					t.Skip("proof keys are raw keys")
				}
				root, err := tr.Commit(nil)
				if err != nil {
					t.Fatalf("commit: %v", err)
				}
				if err := tdb.Commit(root, false); err != nil {
					t.Fatalf("flush: %v", err)
				}
				history = append(history, committed{root, copyModel(model), true})
				ops = append(ops, "commit+flush(proof)")
				if root == (common.Hash{}) || len(model) == 0 {
					return
				}
				keys := sortedKeys(model)
				k := rapid.SampledFrom(keys).Draw(t, "pk")
				rec := &recordingReader{back: disk, blobs: map[common.Hash][]byte{}}
				val, err, _ := trie.VerifyProof(root, []byte(k), rec)
				if err != nil || !bytes.Equal(val, model[k]) {
					t.Fatalf("proof for present key %x: %x, %v; want %x", k, val, err, model[k])
				}
				var blobs [][]byte
				for _, h := range rec.asked {
					blobs = append(blobs, rec.blobs[h])
				}
				// the path alone, content addressed, proves the value
				val, err, _ = trie.VerifyProof(root, []byte(k), newProofSet(blobs))
				if err != nil || !bytes.Equal(val, model[k]) {
					t.Fatalf("proof from the %d path nodes for key %x: %x, %v; want %x", len(blobs), k, val, err, model[k])
				}
				// an absent key is proven absent, not given a value
				ak := genKey().Draw(t, "absent")
				if _, ok := model[ak]; !ok {
					v, err, _ := trie.VerifyProof(root, []byte(ak), rec)
					if err != nil || v != nil {
						t.Fatalf("absent key %x: proof gives %x, %v", ak, v, err)
					}
				}
				// damage one node of the proof: must be an error, never another value, never a clean "absent"
				if len(blobs) > 0 {
					i := rapid.IntRange(0, len(blobs)-1).Draw(t, "victim")
					damaged := make([][]byte, len(blobs))
					copy(damaged, blobs)
					mode := rapid.IntRange(0, 2).Draw(t, "mode")
					switch mode {
					case 0:
						damaged = append(damaged[:i:i], damaged[i+1:]...)
					case 1:
						damaged[i] = damaged[i][:len(damaged[i])-1]
					case 2:
						b := common.CopyBytes(damaged[i])
						b[rapid.IntRange(0, len(b)-1).Draw(t, "pos")] ^= byte(1 << uint(rapid.IntRange(0, 7).Draw(t, "bit")))
						damaged[i] = b
					}
					v, err, _ := trie.VerifyProof(root, []byte(k), newProofSet(damaged))
					if err == nil {
						t.Fatalf("proof with damaged node %d (mode %d) for key %x verified: value %x (real %x)", i, mode, k, v, model[k])
					}
				}
				stats["proof"] = true
			},
			"": func(t *rapid.T) {
				if len(ops)%5 == 0 {
					check("invariant")
				}
			},
		})
		// final: full content and root
		check("final")
		keys := sortedKeys(model)
		if got, want := tr.Hash(), modelRoot(rt, secure, model, keys); got != want {
			rt.Fatalf("final root %s differs from fresh trie %s\nops: %v", got.Hex(), want.Hex(), ops)
		}
		nontrivial := stats["delete"] && (stats["restart"] || stats["reopen"] || stats["oldroot"]) && len(ops) >= 6
		var cls []string
		for k := range stats {
			cls = append(cls, k)
		}
		sort.Strings(cls)
		cls = append(cls, fmt.Sprintf("secure=%v", secure), fmt.Sprintf("beans=%v", onBeans), fmt.Sprintf("limit=%d", limit))
		sim.Case("trie", sim.HashOf(ops, secure, limit), nontrivial, cls, func() interface{} { return ops })
	})
}

// ---- Merkle tree over ordered leaf lists ------------------------------------------------------------------------

// refRoot: independent statement of the pairing rule: the list is consumed two at a time from the front, every pair's
// hash is appended to the end, the last element is the root (empty list: hash of nothing).
func refRoot(leaves []common.Hash) common.Hash {
	if len(leaves) == 0 {
		return crypto.Keccak256Hash(nil)
	}
	q := append([]common.Hash{}, leaves...)
	for i := 0; i+1 < len(q); i += 2 {
		var buf [64]byte
		copy(buf[:32], q[i][:])
		copy(buf[32:], q[i+1][:])
		q = append(q, crypto.Keccak256Hash(buf[:]))
	}
	return q[len(q)-1]
}

func leaf(i int, salt byte) common.Hash {
	return crypto.Keccak256Hash([]byte{byte(i), byte(i >> 8), salt})
}

func TestC17MerkleEnumerate(t *testing.T) {
	maxN := 40
	if sim.Tier() == "thorough" {
		maxN = 200
	}
	evals, nontrivial := 0, 0
	classes := map[string]int{}
	var samples []interface{}
	for n := 0; n <= maxN; n++ {
		for _, spare := range []int{0, 1, 7} { // spare capacity behind the caller's slice (prefix of a longer list)
			backing := make([]common.Hash, n+spare)
			for i := range backing {
				backing[i] = leaf(i, 1)
			}
			leaves := backing[:n]
			before := append([]common.Hash{}, backing...)
			m := merkle.New(leaves)
			root := m.Root()
			if root != refRoot(leaves) {
				t.Fatalf("n=%d: root %s, pairing rule gives %s", n, root.Hex(), refRoot(leaves).Hex())
			}
			nodes := m.HashNodes()
			for i := range backing {
				if backing[i] != before[i] {
					t.Fatalf("n=%d spare=%d: computing the root changed the caller's slice at %d", n, spare, i)
				}
			}
			if root2 := merkle.New(leaves).Root(); root2 != root {
				t.Fatalf("n=%d: root not reproducible", n)
			}
			for pos := 0; pos < n; pos++ {
				evals++
				sib, err := merkle.FindSiblingNodes(leaves[pos], nodes)
				if err != nil {
					t.Fatalf("n=%d pos=%d: no proof: %v", n, pos, err)
				}
				if !merkle.Verify(leaves[pos], root, sib) {
					t.Fatalf("n=%d pos=%d: inclusion proof does not verify", n, pos)
				}
				altered := leaves[pos]
				altered[7] ^= 1
				if merkle.Verify(altered, root, sib) {
					t.Fatalf("n=%d pos=%d: proof verifies for an altered leaf", n, pos)
				}
				// the root binds every position: altering, dropping or swapping a leaf changes it
				mod := append([]common.Hash{}, leaves...)
				mod[pos] = altered
				if merkle.New(mod).Root() == root {
					t.Fatalf("n=%d pos=%d: altered leaf, same root", n, pos)
				}
				dropped := append(append([]common.Hash{}, leaves[:pos]...), leaves[pos+1:]...)
				if merkle.New(dropped).Root() == root {
					t.Fatalf("n=%d pos=%d: dropped leaf, same root", n, pos)
				}
				if pos+1 < n {
					sw := append([]common.Hash{}, leaves...)
					sw[pos], sw[pos+1] = sw[pos+1], sw[pos]
					if merkle.New(sw).Root() == root {
						t.Fatalf("n=%d pos=%d: swapped leaves, same root", n, pos)
					}
				}
				if n%2 == 1 || pos == n-1 || spare > 0 {
					nontrivial++
				}
				classes[fmt.Sprintf("spare%d", spare)]++
			}
			// appending to the caller's slice afterwards must not disturb the tree
			_ = append(leaves, leaf(999, 2))
			if m.Root() != root {
				t.Fatalf("n=%d spare=%d: root changed after the caller appended to its own slice", n, spare)
			}
			if n > 0 {
				sib, _ := merkle.FindSiblingNodes(leaves[0], m.HashNodes())
				if !merkle.Verify(leaves[0], root, sib) {
					t.Fatalf("n=%d spare=%d: proof broken after the caller appended to its own slice", n, spare)
				}
			}
			if len(samples) < 3 && n > 2 {
				samples = append(samples, map[string]interface{}{"leaves": n, "spare_capacity": spare, "positions": "all", "root": root.Hex()})
			}
		}
	}
	sim.Bulk("merkle", evals, nontrivial, classes, samples, true)
}

func TestC17MerkleRandom(t *testing.T) {
	rapid.Check(t, func(rt *rapid.T) {
		n := rapid.IntRange(0, 300).Draw(rt, "n")
		leaves := make([]common.Hash, n)
		for i := range leaves {
			if rapid.IntRange(0, 9).Draw(rt, "dup") == 0 && i > 0 {
				leaves[i] = leaves[rapid.IntRange(0, i-1).Draw(rt, "dupof")] // duplicates are legal leaves
			} else {
				copy(leaves[i][:], rapid.SliceOfN(rapid.Byte(), 32, 32).Draw(rt, "leaf"))
			}
		}
		m := merkle.New(leaves)
		root := m.Root()
		if root != refRoot(leaves) {
			rt.Fatalf("n=%d: root differs from the pairing rule", n)
		}
		if n > 0 {
			pos := rapid.IntRange(0, n-1).Draw(rt, "pos")
			sib, err := merkle.FindSiblingNodes(leaves[pos], m.HashNodes())
			if err != nil || !merkle.Verify(leaves[pos], root, sib) {
				rt.Fatalf("n=%d pos=%d: proof fails (%v)", n, pos, err)
			}
		}
		sim.Case("merkle-random", sim.HashOf(root.Hex()), n > 1, []string{fmt.Sprintf("n>%d", n/50*50)}, func() interface{} { return map[string]interface{}{"leaves": n, "root": root.Hex()} })
	})
}

// TestC17ReferenceVectors pins the root function itself against published vectors of the Merkle Patricia trie this
// code derives from (an independent implementation's answers), so that a consistent change of the hashing rule is
// seen too, which the self-referential order-independence relation cannot see.
func TestC17ReferenceVectors(t *testing.T) {
	vectors := []struct {
		kv   [][2]string
		root string
	}{
		{nil, "56e81f171bcc55a6ff8345e692c0f86e5b48e01b996cadc001622fb5e363b421"},
		{[][2]string{{"doe", "reindeer"}, {"dog", "puppy"}, {"dogglesworth", "cat"}}, "8aad789dff2f538bca5d8ea56e8abe10f4c7ba3a5dea95fea4cd6e7c3a1168d3"},
		{[][2]string{{"A", "aaaaaaaaaaaaaaaaaaaaaaaaaaaaaaaaaaaaaaaaaaaaaaaaaa"}}, "d23786fb4a010da3ce639d66d5e904a11dbc02746d1ce25029e53290cabf28ab"},
	}
	n := 0
	for _, v := range vectors {
		mem, _ := store.NewMemDatabase()
		tr, err := trie.New(common.Hash{}, store.NewTrieDatabase(mem))
		if err != nil {
			t.Fatal(err)
		}
		for _, kv := range v.kv {
			tr.Update([]byte(kv[0]), []byte(kv[1]))
		}
		if got := tr.Hash().Hex(); got != "0x"+v.root {
			t.Fatalf("reference vector %v: root %s, published %s", v.kv, got, v.root)
		}
		n++
	}
	sim.Bulk("reference-vectors", n, 2, map[string]int{"vectors": n}, []interface{}{"doe/dog/dogglesworth -> 8aad789d..."}, true)
}
