// C10 — election integrity: ranking equals a full sort; deputies are the top candidates.
package c10

import (
	"bytes"
	"fmt"
	"math/big"
	"os"
	"sort"
	"strings"
	"testing"

	"verif/sim"

	"github.com/LemoFoundationLtd/lemochain-core/chain/deputynode"
	"github.com/LemoFoundationLtd/lemochain-core/chain/types"
	"github.com/LemoFoundationLtd/lemochain-core/common"
	"pgregory.net/rapid"
)

func TestMain(m *testing.M) {
	sim.Quiet()
	code := m.Run()
	os.RemoveAll(sim.TmpRoot())
	os.Exit(code)
}

func join(h []string) string {
	out := ""
	for _, l := range h {
		out += "  " + l + "\n"
	}
	return out
}

type entry struct {
	addr  common.Address
	votes *big.Int
}

func render(list []entry) string {
	var parts []string
	for _, e := range list {
		parts = append(parts, fmt.Sprintf("%s:%v", e.addr.Hex()[36:], e.votes))
	}
	return "[" + strings.Join(parts, " ") + "]"
}

// fullSort is the statement: all currently registered candidates of that block's account state, sorted by votes
// (descending, ties by address ascending), cut to the list size.
func fullSort(s *sim.Scenario, n *sim.Node, hash common.Hash, size int) (list []entry, unregistered map[common.Address]bool) {
	view := n.View(hash)
	unregistered = map[common.Address]bool{}
	for _, a := range s.AddrList() {
		acc := view.GetAccount(a)
		switch acc.GetCandidate()[types.CandidateKeyIsCandidate] {
		case types.IsCandidateNode:
			list = append(list, entry{a, acc.GetVotes()})
		case types.NotCandidateNode:
			unregistered[a] = true
		}
	}
	sort.Slice(list, func(i, j int) bool {
		if c := list[i].votes.Cmp(list[j].votes); c != 0 {
			return c > 0
		}
		return bytes.Compare(list[i].addr[:], list[j].addr[:]) < 0
	})
	if len(list) > size {
		list = list[:size]
	}
	return list, unregistered
}

func published(n *sim.Node, hash common.Hash) []entry {
	var res []entry
	for _, c := range n.BC.GetCandidatesTop(hash) {
		res = append(res, entry{c.GetAddress(), c.GetTotal()})
	}
	return res
}

// checkList compares the published list of a block with the full sort.
func checkList(t *rapid.T, s *sim.Scenario, n *sim.Node, who string, b *types.Block, size int) bool {
	want, _ := fullSort(s, n, b.Hash(), size)
	got := published(n, b.Hash())
	if render(got) == render(want) {
		return false
	}
	t.Fatalf("%s, block %d (%s): published top list %s, full sort of the registered candidates %s (list size %d)\nhistory:\n%s", who, b.Height(), b.Hash().Hex()[:10], render(got), render(want), size, join(s.History))
	return false
}

func TestC10Election(t *testing.T) {
	rapid.Check(t, func(rt *rapid.T) {
		size := rapid.IntRange(2, 4).Draw(rt, "listSize")
		d := rapid.IntRange(1, 3).Draw(rt, "deputies")
		w := sim.Weights{Transfer: 4, Vote: 8, Candidate: 8, Box: 1, Decoy: 1, Contract: 1}
		s := sim.NewScenarioWith(sim.Options{Deputies: d, Weights: w, TermDuration: 8, InterimDuration: 2, DeputyCount: rapid.IntRange(1, 3).Draw(rt, "deputyCount"), MaxCandidates: size,
			Funding: []int64{6000900, 5000400, 5000000 + 350, 5100000, 5000201, 5000000 + 1000}})
		defer s.Close()
		nblocks := rapid.IntRange(4, 18).Draw(rt, "nblocks")
		unregisters, maxCandidates, restarts, forks := 0, 0, 0, 0
		knownSeen := false
		for i := 0; i < nblocks; i++ {
			parent := s.Head()
			parentList := published(s.F, parent.Hash())
			dep, when := s.NextSlot(rt, parent)
			// a sibling fork block now and then (another deputy, a later slot, other transactions)
			cnt := s.F.DM.GetDeputiesCount(parent.Height() + 1)
			if cnt > 1 && rapid.IntRange(0, 4).Draw(rt, "fork") == 0 {
				rank := (s.F.RankOf(parent.Height()+1, dep.Miner.Addr) + 1) % cnt
				other := s.F.DeputyAt(parent.Height()+1, rank)
				t2 := s.F.TimeFor(parent, rank, 0, 2)
				if other != nil && other.Miner.Addr != dep.Miner.Addr {
					side := s.GenBlockTxs(rt, parent, t2, rapid.IntRange(0, 4).Draw(rt, "nsidetxs"))
					if sb, _, err := s.F.MineAs(other, parent, t2, sim.Txs(side)); err == nil {
						s.History = append(s.History, "fork: "+s.DescribeBlock(sb, side))
						for _, a := range s.Keys.HarvestLogs(sb.ChangeLogs) {
							s.Addrs[a] = true
						}
						if err := s.V.Insert(sb); err != nil {
							rt.Fatalf("validator rejects the fork block: %v\nhistory:\n%s", err, join(s.History))
						}
						knownSeen = checkList(rt, s, s.F, "miner", sb, size) || knownSeen
						knownSeen = checkList(rt, s, s.V, "validator", sb, size) || knownSeen
						forks++
					}
				}
			}
			offered := s.GenBlockTxs(rt, parent, when, rapid.IntRange(0, 7).Draw(rt, "ntxs"))
			b, verdict := s.MineAndValidate(dep, parent, when, offered)
			if b == nil || verdict != nil {
				rt.Fatalf("block not produced / accepted: %v\nparent's list on the miner %s, on the validator %s\nhistory:\n%s", verdict, render(published(s.F, parent.Hash())), render(published(s.V, parent.Hash())), join(s.History))
			}
			knownSeen = checkList(rt, s, s.F, "miner", b, size) || knownSeen
			knownSeen = checkList(rt, s, s.V, "validator", b, size) || knownSeen
			// snapshot block: the deputy list is the first N of the list at its parent
			if deputynode.IsSnapshotBlock(b.Height()) {
				n := s.F.DM.DeputyCount
				want := parentList
				if len(want) > n {
					want = want[:n]
				}
				if len(b.DeputyNodes) != len(want) {
					rt.Fatalf("snapshot block %d carries %d deputies, the parent's list gives %d\nhistory:\n%s", b.Height(), len(b.DeputyNodes), len(want), join(s.History))
				}
				for i, dn := range b.DeputyNodes {
					if dn.MinerAddress != want[i].addr || dn.Rank != uint32(i) || dn.Votes.Cmp(want[i].votes) != 0 {
						rt.Fatalf("snapshot block %d deputy %d is %s rank %d votes %v, the parent's list has %s votes %v at that place\nhistory:\n%s",
							b.Height(), i, dn.MinerAddress.Hex()[36:], dn.Rank, dn.Votes, want[i].addr.Hex()[36:], want[i].votes, join(s.History))
					}
					if i > 0 && dn.Votes.Cmp(b.DeputyNodes[i-1].Votes) > 0 {
						rt.Fatalf("snapshot block %d: votes increase from rank %d to %d\nhistory:\n%s", b.Height(), i-1, i, join(s.History))
					}
					prof := s.F.View(b.Hash()).GetAccount(dn.MinerAddress).GetCandidate()
					if common.ToHex(dn.NodeID) != prof[types.CandidateKeyNodeID] {
						rt.Fatalf("snapshot block %d deputy %d: node id differs from the candidate's profile", b.Height(), i)
					}
				}
			}
			s.ConfirmAll(b)
			// once the snapshot block is stable every node serves exactly that term
			if deputynode.IsSnapshotBlock(b.Height()) && s.V.Stable().Height() >= b.Height() {
				term := s.V.DM.GetDeputiesByHeight(b.Height()+3, true)
				if len(term) != len(b.DeputyNodes) {
					rt.Fatalf("the deputy manager serves %d deputies for the term of snapshot block %d, the block lists %d", len(term), b.Height(), len(b.DeputyNodes))
				}
				for i := range term {
					if term[i].MinerAddress != b.DeputyNodes[i].MinerAddress {
						rt.Fatalf("the deputy manager's term differs from the snapshot block at rank %d", i)
					}
				}
			}
			for _, tx := range b.Txs {
				if tx.Type() == 3 && strings.Contains(string(tx.Data()), `"isCandidate":"false"`) {
					unregisters++
				}
			}
			if c, _ := fullSort(s, s.F, b.Hash(), 1000); len(c) > maxCandidates {
				maxCandidates = len(c)
			}
			// restart: the stable block's list is the same as before
			if restarts < 2 && rapid.IntRange(0, 5).Draw(rt, "restart") == 0 {
				st := s.V.Stable()
				before := published(s.V, st.Hash())
				s.V.Reopen()
				after := published(s.V, st.Hash())
				if render(before) != render(after) && !knownSeen {
					rt.Fatalf("restart changes the top list of stable block %d: %s -> %s\nhistory:\n%s", st.Height(), render(before), render(after), join(s.History))
				}
				s.History = append(s.History, "validator restarted")
				restarts++
				// the unconfirmed blocks are gone: give them back
				for _, old := range s.Blocks {
					if old.Height() > st.Height() {
						_ = s.V.Insert(old)
					}
				}
			}
		}
		nontrivial := maxCandidates > size && unregisters > 0
		sim.Case("election", sim.HashOf(s.History), nontrivial, []string{fmt.Sprintf("list%d", size), fmt.Sprintf("candidates>%d", maxCandidates/2*2), fmt.Sprintf("unregisters%d", min(unregisters, 3)),
			fmt.Sprintf("restarts%d", restarts), fmt.Sprintf("forks%d", min(forks, 3))}, func() interface{} { return s.History })
	})
}
