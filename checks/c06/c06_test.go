// C06 — only authorised transactions change state (signatures, multisig, gas payer).
//
// Authorisation is decided by construction: the harness knows which key signed which content, so the reference does
// not recover anything. Soundness direction of the statement: a transaction that the miner packages, or that the
// validator's transaction processing lets through, must be authorised.
package c06

import (
	"crypto/ecdsa"
	"fmt"
	"math/big"
	"os"
	"testing"

	"verif/sim"

	"github.com/LemoFoundationLtd/lemochain-core/chain/params"
	"github.com/LemoFoundationLtd/lemochain-core/chain/transaction"
	"github.com/LemoFoundationLtd/lemochain-core/chain/types"
	"github.com/LemoFoundationLtd/lemochain-core/common"
	"github.com/LemoFoundationLtd/lemochain-core/common/crypto"
	"github.com/LemoFoundationLtd/lemochain-core/common/rlp"
	"pgregory.net/rapid"
)

func TestMain(m *testing.M) {
	sim.Quiet()
	code := m.Run()
	os.RemoveAll(sim.TmpRoot())
	os.Exit(code)
}

// signature bookkeeping: who signed, over the final content or not, and whether it is a copy of another signature
type sigInfo struct {
	signer  *sim.Actor
	final   bool // signed exactly the content the transaction ends up with
	copyOf  int  // >= 0: same signer as signature #copyOf (repeated or re-encoded)
	foreign bool
}

type account struct {
	actor   *sim.Actor
	signers []sim.SignerSpec // nil: plain account
}

// authorised: plain account: some signature by its own key over the final content; multisig: distinct registered signers
// over the final content with weights >= 100.
func authorised(acc *account, sigs []sigInfo) bool {
	if len(sigs) == 0 {
		return false
	}
	if acc.signers == nil {
		// the code demands the FIRST signature to be the sender's; any own signature over the final content authorises
		for _, s := range sigs {
			if s.final && !s.foreign && s.signer == acc.actor {
				return true
			}
		}
		return false
	}
	total := 0
	seen := map[*sim.Actor]bool{}
	for _, s := range sigs {
		if !s.final || s.foreign || seen[s.signer] {
			continue
		}
		for _, reg := range acc.signers {
			if reg.Actor == s.signer {
				seen[s.signer] = true
				total += int(reg.Weight)
			}
		}
	}
	return total >= 100
}

type world struct {
	s        *sim.Scenario
	plain    *account
	multi    *account
	payer    *account
	mpayer   *account
	stranger *sim.Actor
}

func setup(rt *rapid.T) *world {
	s := sim.NewScenario(1, sim.Weights{Transfer: 1})
	w := &world{s: s, stranger: sim.NewActor("c06/stranger")}
	u := s.W.Users
	w.plain = &account{actor: u[2]}
	w.payer = &account{actor: u[5]}
	weights := []int{34, 50, 60, 100}
	mk := func(owner *sim.Actor, members []*sim.Actor) *account {
		a := &account{actor: owner}
		for {
			a.signers = nil
			sum := 0
			for _, m := range members {
				wgt := rapid.SampledFrom(weights).Draw(rt, "weight")
				a.signers = append(a.signers, sim.SignerSpec{Actor: m, Weight: uint8(wgt)})
				sum += wgt
			}
			if sum >= 100 {
				return a
			}
		}
	}
	w.multi = mk(u[0], []*sim.Actor{u[0], u[1], u[3]})
	w.mpayer = mk(u[1], []*sim.Actor{u[3], u[4]})
	exp := uint64(sim.T0 + 1500)
	txs := types.Transactions{sim.ModifySigners(w.multi.actor, w.multi.signers, exp), sim.ModifySigners(w.mpayer.actor, w.mpayer.signers, exp)}
	b := s.F.MineNext(s.Head(), txs)
	if len(b.Txs) != 2 {
		rt.Fatalf("setup: multisig accounts not established (%d of 2 packaged)", len(b.Txs))
	}
	s.NoteBlock(b, nil)
	if err := s.V.Insert(b); err != nil {
		rt.Fatalf("setup block rejected: %v", err)
	}
	return w
}

var fieldNames = []string{"amount", "to", "gasLimit", "gasPrice", "data", "expiration", "message", "toName", "type", "chainID", "from", "gasPayer"}

// mutate changes one signed field of the spec.
func mutate(rt *rapid.T, spec *sim.TxSpec, field string, other common.Address) {
	switch field {
	case "amount":
		spec.Amount = new(big.Int).Add(spec.Amount, big.NewInt(1))
	case "to":
		if spec.To != nil {
			spec.To = &other
		} else {
			spec.Message += "x"
		}
	case "gasLimit":
		spec.GasLimit += 1000
	case "gasPrice":
		spec.GasPrice = new(big.Int).Add(sim.GasPrice, big.NewInt(1))
	case "data":
		spec.Data = append(append([]byte{}, spec.Data...), 0x01)
	case "expiration":
		spec.Exp++
	case "message":
		spec.Message += "y"
	case "toName":
		spec.ToName += "n"
	case "type":
		if spec.Type == params.OrdinaryTx {
			spec.Type = params.VoteTx
		} else {
			spec.Type = params.OrdinaryTx
		}
	case "chainID":
		spec.ChainID = sim.ChainID + 1
	case "from":
		spec.From = other
	case "gasPayer":
		spec.GasPayer = &other
	}
}

func TestC06Authorisation(t *testing.T) {
	rapid.Check(t, func(rt *rapid.T) {
		w := setup(rt)
		defer w.s.Close()
		s := w.s
		parent := s.Head()
		when := parent.Time() + 3
		dep := s.W.Deputies[0]
		exp := uint64(when) + 600

		from := w.plain
		if rapid.Bool().Draw(rt, "multisigSender") {
			from = w.multi
		}
		// the content
		to := s.W.Users[4].Addr
		spec := sim.TxSpec{From: from.actor.Addr, To: &to, Amount: sim.Lemo(1), GasLimit: 200000, Exp: exp, Message: "c06"}
		kind := rapid.SampledFrom([]string{"transfer", "transfer", "vote", "create", "call", "modify-signers"}).Draw(rt, "txKind")
		switch kind {
		case "vote":
			cand := s.W.Deputies[0].Miner.Addr
			spec.Type, spec.To, spec.Amount = params.VoteTx, &cand, new(big.Int)
		case "create":
			spec.Type, spec.To, spec.Data, spec.Amount = params.CreateContractTx, nil, sim.DeployCode([]byte{0x00}), new(big.Int)
		case "call":
			spec.Data = []byte{1, 2, 3}
		case "modify-signers":
			self := from.actor.Addr
			spec.Type, spec.To, spec.Amount = params.ModifySignersTx, &self, new(big.Int)
			spec.Data = []byte(fmt.Sprintf(`{"signers":[{"address":"%s","weight":"100"}]}`, w.stranger.Addr.String()))
		}
		// who pays the gas
		var payer *account
		switch rapid.IntRange(0, 4).Draw(rt, "payerKind") {
		case 1:
			payer = w.payer
		case 2:
			payer = w.mpayer
		case 3:
			payer = from // a reimbursed transaction which names the sender itself as gas payer: the gas terms still need the payer's signature
		}
		if payer != nil {
			spec.GasPayer = &payer.actor.Addr
		}

		// the sender's signatures
		variant := rapid.SampledFrom([]string{"exact", "exact", "subset", "repeat", "reencoded", "foreign", "tampered", "none", "wrong-hash-kind"}).Draw(rt, "variant")
		signed := spec // content at signing time
		final := spec
		tamperedField := ""
		if variant == "tampered" {
			tamperedField = rapid.SampledFrom(fieldNames).Draw(rt, "field")
			mutate(rt, &final, tamperedField, s.W.Users[3].Addr)
		}
		contentChanged := tamperedField != "" && fmt.Sprintf("%+v", specKey(signed)) != fmt.Sprintf("%+v", specKey(final))

		var keys []*sim.Actor
		if from.signers == nil {
			keys = []*sim.Actor{from.actor}
		} else {
			// smallest prefix of the registered signers reaching 100
			sum := 0
			for _, r := range from.signers {
				if sum >= 100 {
					break
				}
				keys = append(keys, r.Actor)
				sum += int(r.Weight)
			}
		}
		var sigs []sigInfo
		switch variant {
		case "subset":
			if from.signers != nil && len(keys) > 1 {
				keys = keys[:len(keys)-1]
			} else if from.signers != nil {
				// a single signer of weight 100: take another one that is lighter, if any
				for _, r := range from.signers {
					if r.Weight < 100 {
						keys = []*sim.Actor{r.Actor}
					}
				}
			}
		case "foreign":
			keys = []*sim.Actor{w.stranger}
		case "none":
			keys = nil
		}
		tx := signed.Build()
		reimbursed := spec.GasPayer != nil
		signFn := func(tx *types.Transaction, k *ecdsa.PrivateKey, wrongKind bool) *types.Transaction {
			useReimb := reimbursed != wrongKind
			var out *types.Transaction
			var err error
			if useReimb {
				out, err = types.MakeReimbursementTxSigner().SignTx(tx, k)
			} else {
				out, err = types.MakeSigner().SignTx(tx, k)
			}
			if err != nil {
				rt.Fatalf("sign: %v", err)
			}
			return out
		}
		for _, k := range keys {
			tx = signFn(tx, k.Key, variant == "wrong-hash-kind")
			sigs = append(sigs, sigInfo{signer: k, final: !contentChanged && variant != "wrong-hash-kind", copyOf: -1, foreign: k == w.stranger})
		}
		// the gas terms are not covered by the sender's signature of a reimbursed transaction
		if reimbursed && variant == "tampered" && (tamperedField == "gasLimit" || tamperedField == "gasPrice") {
			for i := range sigs {
				sigs[i].final = true
			}
		}
		raw := tx.Sigs()
		switch variant {
		case "repeat":
			if len(raw) > 0 {
				i := rapid.IntRange(0, len(raw)-1).Draw(rt, "which")
				raw = append(raw, raw[i])
				sigs = append(sigs, sigInfo{signer: sigs[i].signer, final: sigs[i].final, copyOf: i})
				// and drop another signer, so that only the copy could make up the weight
				if len(raw) > 2 {
					drop := (i + 1) % (len(raw) - 1)
					raw = append(raw[:drop:drop], raw[drop+1:]...)
					sigs = append(sigs[:drop:drop], sigs[drop+1:]...)
				}
			}
		case "reencoded":
			if len(raw) > 0 {
				i := rapid.IntRange(0, len(raw)-1).Draw(rt, "which")
				raw = append(raw, sim.Malleate(raw[i]))
				sigs = append(sigs, sigInfo{signer: sigs[i].signer, final: sigs[i].final, copyOf: i})
				if len(raw) > 2 {
					drop := (i + 1) % (len(raw) - 1)
					raw = append(raw[:drop:drop], raw[drop+1:]...)
					sigs = append(sigs[:drop:drop], sigs[drop+1:]...)
				}
			}
		}
		// rebuild the transaction with the final content and the collected signatures
		tx = withSigs(final.Build(), raw)

		// the payer's signatures (over the sender's signatures and the gas terms)
		payerAuth := true
		payerVariant := "self-paid"
		if payer != nil {
			payerVariant = rapid.SampledFrom([]string{"exact", "exact", "missing", "other-terms", "foreign", "subset"}).Draw(rt, "payerVariant")
			gasPrice, gasLimit := sim.GasPrice, uint64(200000)
			if final.GasPrice != nil {
				gasPrice = final.GasPrice
			}
			gasLimit = final.GasLimit
			tx = types.GasPayerSignatureTx(tx, gasPrice, gasLimit)
			var pkeys []*sim.Actor
			if payer.signers == nil {
				pkeys = []*sim.Actor{payer.actor}
			} else {
				sum := 0
				for _, r := range payer.signers {
					if sum >= 100 {
						break
					}
					pkeys = append(pkeys, r.Actor)
					sum += int(r.Weight)
				}
			}
			var psigs []sigInfo
			signTerms := tx
			switch payerVariant {
			case "missing":
				pkeys = nil
			case "foreign":
				pkeys = []*sim.Actor{w.stranger}
			case "subset":
				if payer.signers != nil && len(pkeys) > 1 {
					pkeys = pkeys[:len(pkeys)-1]
				} else {
					payerVariant = "exact"
				}
			case "other-terms":
				signTerms = types.GasPayerSignatureTx(withSigs(final.Build(), raw), gasPrice, gasLimit+777)
			}
			var praw [][]byte
			for _, k := range pkeys {
				signedTerms, err := types.MakeGasPayerSigner().SignTx(signTerms, k.Key)
				if err != nil {
					rt.Fatalf("payer sign: %v", err)
				}
				all := signedTerms.GasPayerSigs()
				praw = append(praw, all[len(all)-1])
				signTerms = signedTerms
				psigs = append(psigs, sigInfo{signer: k, final: payerVariant != "other-terms", copyOf: -1, foreign: k == w.stranger})
			}
			tx = withPayerSigs(tx, praw)
			payerAuth = authorised(payer, psigs)
			if payerVariant == "missing" {
				payerAuth = false
			}
		}
		senderAuth := authorised(from, sigs)
		auth := senderAuth && payerAuth

		// miner side
		header := sim.Header(parent, dep.Miner.Addr, when, "")
		blk, _, err := s.F.Assemble(dep, header, types.Transactions{tx})
		if err != nil {
			rt.Fatalf("assemble: %v", err)
		}
		packaged := len(blk.Txs) == 1
		// validator side: the transaction processing of a received block
		vtx := sim.CloneTx(tx)
		if packaged {
			vtx.SetGasUsed(blk.Txs[0].GasUsed())
		}
		s.V.BecomeSelf()
		_, perr := s.V.BC.TxProcessor().Process(header, types.Transactions{vtx})
		letThrough := perr == nil || perr == transaction.ErrTxGasUsedNotEqual

		desc := fmt.Sprintf("%s from %s (%s), sender signatures: %s%s, payer: %s; authorised by construction: sender=%v payer=%v", kind, accKind(from), from.actor.Name, variant,
			tamperedNote(tamperedField), payerVariant, senderAuth, payerAuth)
		if packaged && !auth {
			rt.Fatalf("the miner packaged an unauthorised transaction: %s\n%s", desc, tx)
		}
		if letThrough && !auth {
			rt.Fatalf("the validator's transaction processing lets an unauthorised transaction through (%v): %s\n%s", perr, desc, tx)
		}
		nontrivial := from.signers != nil || payer != nil || variant == "tampered"
		cls := []string{kind, "sender-" + variant, "payer-" + payerVariant, fmt.Sprintf("authorised=%v", auth), fmt.Sprintf("packaged=%v", packaged)}
		if tamperedField != "" {
			cls = append(cls, "tampered-"+tamperedField)
		}
		if auth && !packaged {
			cls = append(cls, "authorised-but-not-packaged")
		}
		sim.Case("authorisation", sim.HashOf(desc, tx.Hash().Hex()), nontrivial, cls, func() interface{} { return desc })
	})
}

func accKind(a *account) string {
	if a.signers == nil {
		return "plain account"
	}
	s := "multisig{"
	for _, r := range a.signers {
		s += fmt.Sprintf("%s:%d ", r.Actor.Name, r.Weight)
	}
	return s + "}"
}

func tamperedNote(f string) string {
	if f == "" {
		return ""
	}
	return " (" + f + " changed after signing)"
}

func specKey(s sim.TxSpec) string {
	to, payer := "nil", "nil"
	if s.To != nil {
		to = s.To.Hex()
	}
	if s.GasPayer != nil {
		payer = s.GasPayer.Hex()
	}
	return fmt.Sprintf("%d %s %s %s %v %d %v %x %d %s %d %s", s.Type, s.From.Hex(), to, s.ToName, s.Amount, s.GasLimit, s.GasPrice, s.Data, s.Exp, s.Message, s.ChainID, payer)
}

// withSigs returns tx carrying exactly the given sender signatures (through the RLP form, the fields are private).
func withSigs(tx *types.Transaction, sigs [][]byte) *types.Transaction {
	return setField(tx, 14, sigs)
}

func withPayerSigs(tx *types.Transaction, sigs [][]byte) *types.Transaction {
	return setField(tx, 15, sigs)
}

func setField(tx *types.Transaction, idx int, sigs [][]byte) *types.Transaction {
	buf, err := rlp.EncodeToBytes(tx)
	if err != nil {
		panic(err)
	}
	var fields []rlp.RawValue
	if err := rlp.DecodeBytes(buf, &fields); err != nil || len(fields) <= idx {
		panic(fmt.Sprintf("split tx: %v (%d fields)", err, len(fields)))
	}
	if sigs == nil {
		sigs = [][]byte{}
	}
	enc, err := rlp.EncodeToBytes(sigs)
	if err != nil {
		panic(err)
	}
	fields[idx] = enc
	out, err := rlp.EncodeToBytes(fields)
	if err != nil {
		panic(err)
	}
	var res types.Transaction
	if err := rlp.DecodeBytes(out, &res); err != nil {
		panic(err)
	}
	return &res
}

var _ = crypto.Keccak256
