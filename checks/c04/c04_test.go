// C04 — replay protection: a signed transaction takes effect at most once per chain branch.
package c04

import (
	"fmt"
	"os"
	"testing"

	"verif/sim"

	"github.com/LemoFoundationLtd/lemochain-core/chain/params"
	"github.com/LemoFoundationLtd/lemochain-core/chain/types"
	"github.com/LemoFoundationLtd/lemochain-core/common"
	"pgregory.net/rapid"
)

func TestMain(m *testing.M) {
	sim.Quiet()
	code := m.Run()
	os.RemoveAll(sim.TmpRoot())
	os.Exit(code)
}

// payload: something a user signed once. Its identity is what was signed and by whom, not the bytes of the signature.
type payload struct {
	id   int
	name string
	tx   *types.Transaction
	exp  uint64
	subs []*payload // for boxes
	// a variant with an equivalent signature encoding has the same identity
	reencoded bool
}

func (p *payload) identities() []int {
	ids := []int{p.id}
	for _, s := range p.subs {
		ids = append(ids, s.id)
	}
	return ids
}

type tnode struct {
	id       int
	b        *types.Block
	parent   *tnode
	payloads []*payload
	accepted bool
	tried    bool
}

type machine struct {
	w       *sim.World
	f, v    *sim.Node
	nodes   []*tnode
	byHash  map[common.Hash]*tnode
	univ    []*payload
	history []string
}

// onPath: identities executed on the branch ending in n (inclusive).
func (m *machine) onPath(n *tnode) map[int]int {
	res := map[int]int{}
	for x := n; x != nil; x = x.parent {
		for _, p := range x.payloads {
			for _, id := range p.identities() {
				res[id]++
			}
		}
	}
	return res
}

func windowOK(blockTime uint32, exp uint64) bool {
	return uint64(blockTime) <= exp && exp-uint64(blockTime) <= uint64(params.MaxTxLifeTime)
}

// expected verdict of an honest validator for block n, by the statement
func (m *machine) valid(n *tnode) (bool, string) {
	if n.parent != nil && !n.parent.accepted {
		return false, "parent not accepted"
	}
	seen := m.onPath(n.parent)
	for _, p := range n.payloads {
		if p.reencoded {
			return false, "non-canonical signature"
		}
		if !windowOK(n.b.Time(), p.exp) {
			return false, fmt.Sprintf("%s outside its lifetime window", p.name)
		}
		for _, s := range p.subs {
			if !windowOK(n.b.Time(), s.exp) || p.exp > s.exp {
				return false, fmt.Sprintf("sub %s outside its lifetime window", s.name)
			}
		}
		for _, id := range p.identities() {
			if seen[id] > 0 {
				return false, fmt.Sprintf("%s replays identity %d", p.name, id)
			}
			seen[id]++
		}
	}
	return true, ""
}

func TestC04Replay(t *testing.T) {
	rapid.Check(t, func(rt *rapid.T) {
		sim.ResetGlobals()
		d := rapid.IntRange(2, 3).Draw(rt, "deputies")
		w := sim.NewWorld("w", d, 4)
		f := sim.NewNode(w, w.Deputies[0], 17)
		defer f.Destroy()
		v := sim.NewNode(w, nil, 17)
		defer v.Destroy()
		m := &machine{w: w, f: f, v: v, byHash: map[common.Hash]*tnode{}}
		root := &tnode{id: 0, b: f.Genesis, accepted: true}
		m.nodes = append(m.nodes, root)
		m.byHash[root.b.Hash()] = root

		// setup block: user 0 is funded and becomes a multi-signature account (signers user 1 and user 2, 50 each)
		{
			exp0 := uint64(sim.T0) + 900
			signers := []sim.SignerSpec{{Actor: w.Users[1], Weight: 50}, {Actor: w.Users[2], Weight: 50}}
			b := f.MineNext(f.Genesis, types.Transactions{sim.Transfer(w.Founder, w.Users[0].Addr, sim.Lemo(1000), exp0), sim.ModifySigners(w.Users[0], signers, exp0)})
			if len(b.Txs) != 2 {
				rt.Fatalf("setup block packaged %d of 2", len(b.Txs))
			}
			if err := v.Insert(b); err != nil {
				rt.Fatalf("setup block rejected: %v", err)
			}
			n := &tnode{id: 1, b: b, parent: root, accepted: true}
			m.nodes = append(m.nodes, n)
			m.byHash[b.Hash()] = n
		}
		// the payload universe: transfers of the founder with expirations spread over several lifetime windows, boxes over them, re-encoded copies
		exps := []uint64{uint64(sim.T0) + 600, uint64(sim.T0) + 1700, uint64(sim.T0) + 1805, uint64(sim.T0) + 3000, uint64(sim.T0) + 3700, uint64(sim.T0) + 6000}
		for i, e := range exps {
			tx := sim.Transfer(w.Founder, w.Users[i%4].Addr, sim.Lemo(int64(i+1)), e)
			m.univ = append(m.univ, &payload{id: i, name: fmt.Sprintf("P%d(exp+%d)", i, e-uint64(sim.T0)), tx: tx, exp: e})
		}
		{ // transfers of the multi-signature account, and the copy whose SECOND signature is re-encoded
			for i, e := range []uint64{uint64(sim.T0) + 1700, uint64(sim.T0) + 3700} {
				to := w.Users[3].Addr
				tx := sim.Sign(sim.TxSpec{Type: params.OrdinaryTx, From: w.Users[0].Addr, To: &to, Amount: sim.Lemo(int64(5 + i)), GasLimit: 100000, Exp: e}.Build(), w.Users[1].Key, w.Users[2].Key)
				p := &payload{id: 50 + i, name: fmt.Sprintf("M%d(exp+%d)", i, e-uint64(sim.T0)), tx: tx, exp: e}
				raw := tx.Sigs()
				re := sim.WithSigs(tx, [][]byte{raw[0], sim.Malleate(raw[1])})
				m.univ = append(m.univ, p, &payload{id: p.id, name: p.name + "''", tx: re, exp: e, reencoded: true})
			}
		}
		nplain := 6
		for i := 0; i < nplain; i++ { // the same signed content with the equivalent signature (r, n-s, v^1)
			p := m.univ[i]
			if p.reencoded || len(p.tx.Sigs()) != 1 {
				panic("universe order")
			}
			raw := p.tx.Sigs()
			re := sim.WithSigs(p.tx, [][]byte{sim.Malleate(raw[0])})
			m.univ = append(m.univ, &payload{id: p.id, name: p.name + "'", tx: re, exp: p.exp, reencoded: true})
		}
		// boxes (a box is signed content of its own): pairs far apart, pairs whose later expiration is within one lifetime of the
		// box's own expiration (but not of an early block), and the same sub transaction twice
		pairs := [][2]int{{0, 3}, {2, 5}, {4, 1}, {1, 3}, {0, 1}, {1, 1}, {3, 3}, {2, 4}}
		for i, pr := range pairs {
			a, b := m.univ[pr[0]], m.univ[pr[1]]
			exp := a.exp
			if b.exp < exp {
				exp = b.exp
			}
			box := sim.Box(w.Founder, types.Transactions{a.tx, b.tx}, 200000, exp)
			m.univ = append(m.univ, &payload{id: 100 + i, name: fmt.Sprintf("Box%d[%s %s]", i, a.name, b.name), tx: box, exp: exp, subs: []*payload{a, b}})
		}
		replayAttempts, jumps, restarts := 0, 0, 0

		rt.Repeat(map[string]func(*rapid.T){
			"mine": func(t *rapid.T) {
				p := m.nodes[rapid.IntRange(0, len(m.nodes)-1).Draw(t, "parent")]
				h := p.b.Height() + 1
				cnt := f.DM.GetDeputiesCount(h)
				rank := rapid.IntRange(0, cnt-1).Draw(t, "rank")
				loops := rapid.SampledFrom([]int{0, 0, 0, 1, 20, 58, 61, 120}).Draw(t, "loops")
				when := f.TimeFor(p.b, rank, loops, uint32(rapid.IntRange(0, 9).Draw(t, "off")))
				if loops >= 20 {
					jumps++
				}
				k := rapid.IntRange(0, 3).Draw(t, "ntxs")
				var list []*payload
				for i := 0; i < k; i++ {
					list = append(list, m.univ[rapid.IntRange(0, len(m.univ)-1).Draw(t, "payload")])
				}
				if k > 0 && rapid.IntRange(0, 5).Draw(t, "twice") == 0 {
					list = append(list, list[0]) // the same payload twice in one block
				}
				var txs types.Transactions
				for _, pl := range list {
					txs = append(txs, pl.tx)
				}
				// the factory plays a deputy who packages whatever he likes: the assembler executes and seals, it does not ask the replay guard
				b, _, err := f.MineAs(f.DeputyAt(h, rank), p.b, when, txs)
				if err != nil {
					t.Skip("cannot mine: " + err.Error())
				}
				if _, dup := m.byHash[b.Hash()]; dup {
					t.Skip("same block")
				}
				n := &tnode{id: len(m.nodes), b: b, parent: p}
				// what the block really contains (the assembler drops what fails in execution)
				byHash := map[common.Hash]*payload{}
				for _, pl := range list {
					byHash[pl.tx.Hash()] = pl
				}
				for _, tx := range b.Txs {
					n.payloads = append(n.payloads, byHash[tx.Hash()])
				}
				m.nodes = append(m.nodes, n)
				m.byHash[b.Hash()] = n
				names := ""
				for _, pl := range n.payloads {
					names += " " + pl.name
				}
				m.history = append(m.history, fmt.Sprintf("b%d=mine(parent b%d, t+%d:%s)", n.id, p.id, when-sim.T0, names))
			},
			"deliver": func(t *rapid.T) {
				n := m.nodes[rapid.IntRange(0, len(m.nodes)-1).Draw(t, "block")]
				if n.parent == nil {
					t.Skip("genesis")
				}
				if n.b.Height() <= v.Stable().Height() {
					t.Skip("below stable")
				}
				want, why := m.valid(n)
				err := v.Insert(n.b)
				known := v.BC.HasBlock(n.b.Hash())
				m.history = append(m.history, fmt.Sprintf("deliver(b%d)=%v", n.id, err))
				seen := m.onPath(n.parent)
				for _, pl := range n.payloads {
					for _, id := range pl.identities() {
						if seen[id] > 0 {
							replayAttempts++
						}
						seen[id]++
					}
				}
				if known && !want {
					// the statement's direction: executed more than once on a branch, or outside the lifetime window
					t.Fatalf("the node accepted block b%d although %s\nhistory: %v", n.id, why, m.history)
				}
				if !known && want {
					t.Fatalf("the node rejected block b%d (%v) although it replays nothing on its branch and every transaction is inside its window\nhistory: %v", n.id, err, m.history)
				}
				n.accepted = known
				n.tried = true
			},
			"confirm": func(t *rapid.T) {
				n := m.nodes[rapid.IntRange(0, len(m.nodes)-1).Draw(t, "block")]
				if !n.accepted || n.parent == nil {
					t.Skip("not on the node")
				}
				var sigs []types.SignData
				for _, dep := range w.Deputies {
					sigs = append(sigs, sim.ConfirmAs(n.b, dep))
				}
				v.BecomeSelf()
				v.BC.InsertConfirms(n.b.Height(), n.b.Hash(), sigs)
				m.history = append(m.history, fmt.Sprintf("confirm(b%d) -> stable height %d", n.id, v.Stable().Height()))
				// blocks that are not descendants of the stable block are gone
				st := m.byHash[v.Stable().Hash()]
				for _, x := range m.nodes {
					if x.accepted && x != st && !isAncestor(st, x) && !isAncestor(x, st) {
						x.accepted = false
					}
				}
			},
			"restart": func(t *rapid.T) {
				if restarts >= 2 {
					t.Skip("enough")
				}
				restarts++
				v.Reopen()
				st := m.byHash[v.Stable().Hash()]
				for _, x := range m.nodes {
					if x.accepted && !isAncestor(x, st) && x != st {
						x.accepted = false // unconfirmed blocks are lost by a restart
					}
				}
				m.history = append(m.history, "restart")
			},
		})
		sim.Case("replay", sim.HashOf(m.history), replayAttempts > 0, []string{fmt.Sprintf("replay-attempts>%d", min(replayAttempts, 5)), fmt.Sprintf("time-jumps%d", min(jumps, 3)), fmt.Sprintf("restarts%d", restarts)},
			func() interface{} { return m.history })
	})
}

// isAncestor: a is a strict ancestor of b
func isAncestor(a, b *tnode) bool {
	for x := b.parent; x != nil; x = x.parent {
		if x == a {
			return true
		}
	}
	return false
}
