// C11 — a candidate's votes equal deposit votes plus its current voters' balance votes.
package c11

import (
	"fmt"
	"math/big"
	"os"
	"testing"

	"verif/sim"

	"github.com/LemoFoundationLtd/lemochain-core/chain/types"
	"github.com/LemoFoundationLtd/lemochain-core/common"
	"pgregory.net/rapid"
)

func TestMain(m *testing.M) {
	sim.Quiet()
	code := m.Run()
	os.RemoveAll(sim.TmpRoot())
	os.Exit(code)
}

func join(h []string) string {
	out := ""
	for _, l := range h {
		out += "  " + l + "\n"
	}
	return out
}

var (
	per100 = sim.Lemo(100)
	per200 = sim.Lemo(200)
)

// checkTally recomputes every candidate's votes from the block's own account state, as the statement defines them.
func checkTally(t *rapid.T, s *sim.Scenario, b *types.Block, offered []*sim.GenTx) (registered int) {
	view := s.V.View(b.Hash())
	addrs := s.AddrList()
	fromVoters := map[common.Address]*big.Int{}
	for _, a := range addrs {
		acc := view.GetAccount(a)
		if to := acc.GetVoteFor(); to != (common.Address{}) {
			if fromVoters[to] == nil {
				fromVoters[to] = new(big.Int)
			}
			fromVoters[to].Add(fromVoters[to], new(big.Int).Div(acc.GetBalance(), per200))
		}
	}
	for _, a := range addrs {
		acc := view.GetAccount(a)
		votes := acc.GetVotes()
		if votes.Sign() < 0 {
			t.Fatalf("block %d: %s has %v votes\n%s\nhistory:\n%s", b.Height(), a.Hex(), votes, s.DescribeBlock(b, offered), join(s.History))
		}
		prof := acc.GetCandidate()
		switch prof[types.CandidateKeyIsCandidate] {
		case types.IsCandidateNode:
			registered++
			deposit, ok := new(big.Int).SetString(prof[types.CandidateKeyDepositAmount], 10)
			if !ok {
				deposit = new(big.Int)
			}
			want := new(big.Int).Div(deposit, per100)
			if v := fromVoters[a]; v != nil {
				want.Add(want, v)
			}
			if votes.Cmp(want) != 0 {
				t.Fatalf("block %d: candidate %s has %v votes; its deposit %v gives %v and its voters' balances give %v, together %v\n%s\nhistory:\n%s",
					b.Height(), a.Hex(), votes, deposit, new(big.Int).Div(deposit, per100), fromVoters[a], want, s.DescribeBlock(b, offered), join(s.History))
			}
		case types.NotCandidateNode:
			if votes.Sign() != 0 {
				t.Fatalf("block %d: unregistered candidate %s still has %v votes\nhistory:\n%s", b.Height(), a.Hex(), votes, join(s.History))
			}
		}
	}
	return registered
}

func run(rt *rapid.T, s *sim.Scenario, nblocks int) ([]string, bool) {
	var classes []string
	nontrivial := false
	for i := 0; i < nblocks; i++ {
		parent := s.Head()
		dep, when := s.NextSlot(rt, parent)
		offered := s.GenBlockTxs(rt, parent, when, rapid.IntRange(0, 8).Draw(rt, "ntxs"))
		b, verdict := s.MineAndValidate(dep, parent, when, offered)
		if b == nil || verdict != nil {
			rt.Fatalf("block not produced / accepted: %v\nhistory:\n%s", verdict, join(s.History))
		}
		checkTally(rt, s, b, offered)
		s.ConfirmAll(b)
		// several operations on the same voter within one block, one of them a vote
		touched := map[common.Address]int{}
		voted := map[common.Address]bool{}
		for _, tx := range b.Txs {
			touched[tx.From()]++
			if tx.To() != nil {
				touched[*tx.To()]++
			}
			if tx.Type() == 2 {
				voted[tx.From()] = true
			}
		}
		for a := range voted {
			if touched[a] >= 2 {
				nontrivial = true
				classes = append(classes, "vote-and-other-op-same-block")
			}
		}
		for _, tx := range b.Txs {
			classes = append(classes, fmt.Sprintf("txtype%d", tx.Type()))
		}
	}
	return classes, nontrivial
}

// every user can afford the candidate deposit; balances end around different multiples of 200 LEMO
var richFunding = []int64{6000900, 5000400, 5000350, 5100000, 5000201, 5001000}

func weights() sim.Weights {
	w := sim.DefaultWeights
	w.Vote, w.Candidate, w.Transfer, w.Contract, w.Box, w.GasPayer, w.Decoy, w.Reward = 10, 6, 8, 2, 3, 2, 1, 2
	return w
}

func TestC11Tally(t *testing.T) {
	rapid.Check(t, func(rt *rapid.T) {
		s := sim.NewScenarioWith(sim.Options{Deputies: rapid.IntRange(1, 3).Draw(rt, "deputies"), Weights: weights(), Funding: richFunding, FundDeputies: true})
		defer s.Close()
		classes, nontrivial := run(rt, s, rapid.IntRange(2, 8).Draw(rt, "nblocks"))
		sim.Case("tally", sim.HashOf(s.History), nontrivial, classes, func() interface{} { return s.History })
	})
}

// TestC11Terms: the same with terms of 8 blocks, so that deposit refunds and rewards (balance changes made by the
// platform at the end of a block) fall into the histories.
func TestC11Terms(t *testing.T) {
	rapid.Check(t, func(rt *rapid.T) {
		s := sim.NewScenarioWith(sim.Options{Deputies: rapid.IntRange(1, 3).Draw(rt, "deputies"), Weights: weights(), TermDuration: 8, InterimDuration: 2, DeputyCount: 3, Funding: richFunding, FundDeputies: true})
		defer s.Close()
		classes, nontrivial := run(rt, s, rapid.IntRange(10, 20).Draw(rt, "nblocks"))
		sim.Case("terms", sim.HashOf(s.History), nontrivial, classes, func() interface{} { return s.History })
	})
}
