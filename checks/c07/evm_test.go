package c07

import (
	"fmt"
	"testing"

	"verif/evmcheck"
	"verif/sim"

	"pgregory.net/rapid"
)

var evmBase *sim.EvmBase

// TestC07EVM — unit B: the journal under the snapshot / revert pairs that real contract execution produces (nested
// calls of every kind, creations, self-destructs, failures at any depth). The recording proxy knows which operations
// must have survived; a manager that replays only those must end with the same logs, state, roots and version root.
func TestC07EVM(t *testing.T) {
	if evmBase == nil {
		evmBase = sim.NewEvmBase()
	}
	rapid.Check(t, func(rt *rapid.T) {
		c := evmBase.GenEvmCase(rt)
		evmcheck.KnownUnit = "evm"
		p := evmcheck.CheckCase(rt, evmBase, c)
		nontrivial := p.NestedFailThenWrite && p.MaxLive >= 2 && p.RevertAfterWrite
		cls := []string{fmt.Sprintf("reverts%d", min(p.Reverts, 3)), fmt.Sprintf("nesting%d", min(p.MaxLive, 4))}
		if p.RevertAfterWrite {
			cls = append(cls, "revert-undid-writes")
		}
		if p.NestedFailThenWrite {
			cls = append(cls, "write-after-revert")
		}
		sim.Case("evm", sim.HashOf(c.Describe()), nontrivial, cls, func() interface{} { return c.Describe() })
	})
}
