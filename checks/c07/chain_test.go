package c07

import (
	"fmt"
	"strings"
	"testing"

	"verif/sim"

	"github.com/LemoFoundationLtd/lemochain-core/chain/types"
	"github.com/LemoFoundationLtd/lemochain-core/common"
	"github.com/LemoFoundationLtd/lemochain-core/common/crypto"
	"pgregory.net/rapid"
)

func join(h []string) string {
	out := ""
	for _, l := range h {
		out += "  " + l + "\n"
	}
	return out
}

// TestC07Chain — units C and D on generated chain histories.
//
//	C (miner discard): assembling a block from the candidate list and from only the packaged transactions must leave the
//	  miner's account manager in the same state (all addresses, all logged keys, raw fields), not only give the same hash.
//	D (redo): replaying a block's published change logs onto the parent state yields the state of the executed block.
func TestC07Chain(t *testing.T) {
	rapid.Check(t, func(rt *rapid.T) {
		w := sim.DefaultWeights
		w.Decoy, w.Box, w.Asset, w.Contract = 4, 4, 2, 6
		s := sim.NewScenario(rapid.IntRange(1, 2).Draw(rt, "deputies"), w)
		defer s.Close()
		nblocks := rapid.IntRange(1, 4).Draw(rt, "nblocks")
		discards, redone := 0, 0
		var classes []string
		for i := 0; i < nblocks; i++ {
			parent := s.Head()
			dep, when := s.NextSlot(rt, parent)
			offered := s.GenBlockTxs(rt, parent, when, rapid.IntRange(1, 9).Draw(rt, "ntxs"))
			header := sim.Header(parent, dep.Miner.Addr, when, "")
			if g := rapid.SampledFrom([]uint64{0, 0, 80000, 122000, 300000}).Draw(rt, "gasLimit"); g != 0 {
				header.GasLimit = g
			}
			// C: with and without the discarded candidates
			full, _, err := s.F.Assemble(dep, header, sim.Txs(offered))
			if err != nil {
				rt.Fatalf("assemble: %v", err)
			}
			for _, a := range s.Keys.HarvestLogs(full.ChangeLogs) {
				s.Addrs[a] = true
			}
			for _, g := range offered {
				s.Addrs[g.Tx.From()] = true
				if g.Tx.To() != nil {
					s.Addrs[*g.Tx.To()] = true
				}
				if g.Kind == "create" {
					s.Addrs[sim.ContractAddr(g.Tx)] = true
				}
			}
			opt := sim.DumpOptions{Roots: true, Versions: true}
			afterFull := sim.DumpState(s.F.BC.AccountManager(), s.AddrList(), &s.Keys, opt)
			// which accounts self-destructed in this block (the flag lives in the miner's memory only)
			destroyed := map[string]bool{}
			for _, a := range s.AddrList() {
				if s.F.BC.AccountManager().GetAccount(a).GetSuicide() {
					destroyed[a.Hex()] = true
				}
			}
			rawFull := rawHashes(s)
			only, _, err := s.F.Assemble(dep, header, full.Txs)
			if err != nil {
				rt.Fatalf("assemble packaged only: %v", err)
			}
			if only.Hash() != full.Hash() {
				rt.Fatalf("discarded candidates left a trace in the block\n%s\nhistory:\n%s", s.DescribeBlock(full, offered), join(s.History))
			}
			afterOnly := sim.DumpState(s.F.BC.AccountManager(), s.AddrList(), &s.Keys, opt)
			if diff := afterOnly.Diff(afterFull); diff != "" {
				rt.Fatalf("discarded candidates left a trace in the miner's state (- without them, + with them):\n%s\n%s\nhistory:\n%s", diff, s.DescribeBlock(full, offered), join(s.History))
			}
			if rawOnly := rawHashes(s); rawOnly != rawFull {
				rt.Fatalf("discarded candidates changed raw account fields:\n with: %s\n without: %s\n%s", rawFull, rawOnly, s.DescribeBlock(full, offered))
			}
			if len(offered) > len(full.Txs) {
				discards++
			}
			b, _, err := s.F.MineAsHeader(dep, header, sim.Txs(offered))
			if err != nil {
				rt.Fatalf("mining: %v\nhistory:\n%s", err, join(s.History))
			}
			s.NoteBlock(b, offered)
			// D: redo the published change logs on the parent state. Done on the validator BEFORE it receives the block: the
			// parent is still its head, so the view really is the parent state; the executed state is read on the miner.
			if len(b.ChangeLogs) > 0 {
				redo := s.V.View(parent.Hash())
				wire := sim.CloneBlock(b) // the logs as a light client receives them
				func() {
					defer func() {
						if r := recover(); r != nil {
							rt.Fatalf("redo of block %d panicked: %v\nhistory:\n%s", b.Height(), r, join(s.History))
						}
					}()
					if err := redo.RebuildAll(wire); err != nil {
						rt.Fatalf("redo of block %d failed: %v\nlogs: %v\nhistory:\n%s", b.Height(), err, sim.RenderLogs(b.ChangeLogs, true), join(s.History))
					}
				}()
				executed := s.F.View(b.Hash())
				plain := sim.DumpOptions{NoSuicide: true}
				diff := sim.DumpState(executed, s.AddrList(), &s.Keys, plain).Diff(sim.DumpState(redo, s.AddrList(), &s.Keys, plain))
				if diff != "" && knownValuelessSuicide(diff, destroyed, b) {
					sim.KnownHit("chain", "C07-redo-valueless-suicide", fmt.Sprintf("block %d", b.Height()))
					diff = ""
				}
				if diff != "" && knownRecreateRedo(diff, s, b) {
					sim.KnownHit("chain", "undo-code-after-recreate", fmt.Sprintf("block %d", b.Height()))
					diff = ""
				}
				if diff != "" {
					rt.Fatalf("redo of block %d differs from executing it (- executed, + redone):\n%s\nlogs: %v\nhistory:\n%s", b.Height(), diff, sim.RenderLogs(b.ChangeLogs, true), join(s.History))
				}
				redone++
			}
			if err := s.V.Insert(b); err != nil {
				rt.Fatalf("validator rejects: %v\nhistory:\n%s", err, join(s.History))
			}
			s.ConfirmAll(b)
			for _, g := range offered {
				classes = append(classes, g.Kind)
			}
		}
		classes = append(classes, fmt.Sprintf("blocks-with-discards%d", discards))
		sim.Case("chain", sim.HashOf(s.History), discards > 0 && redone > 0, classes, func() interface{} { return s.History })
	})
}

// rawHashes renders the raw stored code hash of every known address (the dump normalises it).
func rawHashes(s *sim.Scenario) string {
	out := ""
	am := s.F.BC.AccountManager()
	for _, a := range s.AddrList() {
		out += am.GetAccount(a).GetCodeHash().Hex()[:8] + ","
	}
	return out
}

var _ = types.Transactions{}

// knownValuelessSuicide is the matcher of known finding C07-redo-valueless-suicide: a contract that self-destructs while
// it has no balance, code or storage root publishes no SuicideLog (it is dropped as "valueless"), but the storage logs
// it wrote before are published; redo then keeps storage which the execution wiped. The matcher explains a mismatch only
// if every differing line is an extra storage entry of the redone state, on an account that self-destructed in this
// block, for which the block carries no SuicideLog.
func knownValuelessSuicide(diff string, destroyed map[string]bool, b *types.Block) bool {
	hasSuicideLog := map[string]bool{}
	for _, l := range b.ChangeLogs {
		if l.LogType.String() == "SuicideLog" {
			hasSuicideLog[l.Address.Hex()] = true
		}
	}
	for _, line := range strings.Split(diff, "\n") {
		parts := strings.SplitN(line, "  ", 2)
		if len(parts) != 2 {
			return false
		}
		addr := parts[0]
		if !destroyed[addr] || hasSuicideLog[addr] || !strings.HasPrefix(parts[1], "+ storage[") {
			return false
		}
	}
	return true
}

// knownRecreateRedo is the chain-level matcher of the known finding undo-code-after-recreate (see known_findings.json): the
// executed state lost the code of a contract that contract code created (twice) during this block, the published logs still
// carry its code.
func knownRecreateRedo(diff string, s *sim.Scenario, b *types.Block) bool {
	internal := map[string]bool{}
	creators := append([]common.Address{}, s.Gen.Contracts...)
	for _, tx := range b.Txs {
		if tx.Type() == 1 {
			creators = append(creators, sim.ContractAddr(tx))
		}
	}
	for _, tx := range b.Txs {
		for _, c := range creators {
			internal[crypto.CreateContractAddress(c, tx.Hash()).Hex()] = true
		}
	}
	for _, line := range strings.Split(diff, "\n") {
		parts := strings.SplitN(line, "  ", 2)
		if len(parts) != 2 || !internal[parts[0]] {
			return false
		}
		f := parts[1]
		switch {
		case f == "- codehash=none" || strings.HasPrefix(f, "- code= "):
		case strings.HasPrefix(f, "+ codehash=") || strings.HasPrefix(f, "+ code="):
		default:
			return false
		}
	}
	return true
}
