// C07 — the change journal is faithful. Unit A: API state machine on a real account.Manager.
//
// Oracles:
//
//	(1) after every RevertToSnapshot the observable dump of every account equals the dump taken at the snapshot, the
//	    journal has the length it had then, and nothing panics;
//	(2) differential: a second real manager on the same base state executes only the operations that survived
//	    (were not reverted); raw logs, merged+finalised logs, version root and finalised dumps must be identical.
package c07

import (
	"fmt"
	"math/big"
	"os"
	"sort"
	"testing"

	"verif/sim"

	"github.com/LemoFoundationLtd/lemochain-core/chain/account"
	"github.com/LemoFoundationLtd/lemochain-core/chain/types"
	"github.com/LemoFoundationLtd/lemochain-core/common"
	"github.com/LemoFoundationLtd/lemochain-core/store"
	"pgregory.net/rapid"
)

var (
	baseDB   *store.ChainDatabase
	baseHash common.Hash
	// the cast
	richContract = common.HexToAddress("0x0200000000000000000000000000000000000c01") // code + trie-backed storage
	richUser     = common.HexToAddress("0x0100000000000000000000000000000000000a01") // balance, assets, equity, profile, signers, vote
	plainUser    = common.HexToAddress("0x0100000000000000000000000000000000000a02") // balance only
	freshAddr    = common.HexToAddress("0x0100000000000000000000000000000000000a03") // not in the database
	cast         = []common.Address{richContract, richUser, plainUser, freshAddr}
	baseKeys     sim.Keys
	skeys        = []common.Hash{common.HexToHash("0x01"), common.HexToHash("0x02"), common.HexToHash("0x03"), common.HexToHash("0xff00000000000000000000000000000000000000000000000000000000000004")}
	codes        = []common.Hash{common.HexToHash("0xc0de01"), common.HexToHash("0xc0de02")}
	ids          = []common.Hash{common.HexToHash("0x1d01"), common.HexToHash("0x1d02"), common.HexToHash("0xc0de01")}
)

func TestMain(m *testing.M) {
	sim.Quiet()
	setupBase()
	code := m.Run()
	baseDB.Close()
	os.RemoveAll(sim.TmpRoot())
	os.Exit(code)
}

func mkAsset(code common.Hash, issuer common.Address, supply int64) *types.Asset {
	return &types.Asset{Category: 1, IsDivisible: true, AssetCode: code, Decimal: 2, TotalSupply: big.NewInt(supply), IsReplenishable: true, Issuer: issuer,
		Profile: types.Profile{"name": "n", "freeze": "false"}}
}

// setupBase writes a stable block whose accounts already carry every kind of state, so that reverting restores
// non-trivial old values (also values that live in tries on disk, not only in caches).
func setupBase() {
	baseDB = store.NewChainDataBase(sim.NewDir())
	am := account.NewManager(common.Hash{}, baseDB)
	c := am.GetAccount(richContract)
	c.SetBalance(big.NewInt(5000))
	c.SetCode(types.Code{0x60, 0x00, 0x60, 0x00, 0xf3})
	_ = c.SetStorageState(skeys[0], []byte{0x11})
	_ = c.SetStorageState(skeys[1], []byte{0x22, 0x33})
	u := am.GetAccount(richUser)
	u.SetBalance(big.NewInt(900000))
	_ = u.SetAssetCode(codes[0], mkAsset(codes[0], richUser, 1000))
	_ = u.SetAssetIdState(ids[0], "meta-1")
	_ = u.SetEquityState(ids[0], &types.AssetEquity{AssetCode: codes[0], AssetId: ids[0], Equity: big.NewInt(700)})
	_ = u.SetEquityState(ids[2], &types.AssetEquity{AssetCode: codes[0], AssetId: ids[2], Equity: big.NewInt(300)})
	u.SetCandidate(types.Profile{"isCandidate": "true", "nodeID": "abcd", "host": "h", "port": "7001", "incomeAddress": "x", "depositBalance": "100", "introduction": ""})
	u.SetVotes(big.NewInt(77))
	u.SetVoteFor(richUser)
	_ = u.SetSingers(types.Signers{{Address: plainUser, Weight: 60}, {Address: richUser, Weight: 50}})
	am.GetAccount(plainUser).SetBalance(big.NewInt(1234))
	if err := am.Finalise(); err != nil {
		panic(err)
	}
	logs := am.GetChangeLogs()
	header := &types.Header{Height: 0, VersionRoot: am.GetVersionRoot(), LogRoot: logs.MerkleRootSha(), Time: sim.T0, MinerAddress: plainUser}
	block := types.NewBlock(header, nil, logs)
	block.SetDeputyNodes(types.DeputyNodes{})
	baseHash = block.Hash()
	if err := baseDB.SetBlock(baseHash, block); err != nil {
		panic(err)
	}
	if err := am.Save(baseHash); err != nil {
		panic(err)
	}
	if _, err := baseDB.SetStableBlock(baseHash); err != nil {
		panic(err)
	}
	for _, k := range skeys {
		baseKeys.AddStorage(k)
	}
	for _, k := range codes {
		baseKeys.AddCode(k)
	}
	for _, k := range ids {
		baseKeys.AddId(k)
	}
}

// op is one journaled mutation, replayable on any manager.
type op struct {
	desc string
	do   func(am *account.Manager) error
}

var dumpOpt = sim.DumpOptions{}

func dump(am *account.Manager) sim.StateDump { return sim.DumpState(am, cast, &baseKeys, dumpOpt) }

// genOp draws a mutation in a shape real callers produce, given the current state (read from am).
func genOp(t *rapid.T, am *account.Manager) *op {
	addr := cast[rapid.IntRange(0, len(cast)-1).Draw(t, "acct")]
	acc := am.GetAccount(addr)
	kind := rapid.IntRange(0, 15).Draw(t, "kind")
	switch kind {
	case 0, 1:
		v := big.NewInt(int64(rapid.IntRange(0, 1000000).Draw(t, "balance")))
		return &op{fmt.Sprintf("SetBalance(%s,%v)", short(addr), v), func(am *account.Manager) error { am.GetAccount(addr).SetBalance(v); return nil }}
	case 2, 3:
		k := skeys[rapid.IntRange(0, len(skeys)-1).Draw(t, "skey")]
		var v []byte
		switch rapid.IntRange(0, 3).Draw(t, "sval") {
		case 0: // empty: delete
		case 1:
			v = []byte{rapid.ByteRange(1, 255).Draw(t, "b")}
		default:
			v = common.BytesToHash(rapid.SliceOfN(rapid.Byte(), 1, 32).Draw(t, "word")).Bytes()
		}
		return &op{fmt.Sprintf("SetStorage(%s,%s,%x)", short(addr), k.Hex()[60:], v), func(am *account.Manager) error { return am.GetAccount(addr).SetStorageState(k, v) }}
	case 4:
		code := codes[rapid.IntRange(0, len(codes)-1).Draw(t, "code")]
		a := mkAsset(code, addr, int64(rapid.IntRange(0, 5000).Draw(t, "supply")))
		return &op{fmt.Sprintf("SetAssetCode(%s,%s)", short(addr), code.Hex()[60:]), func(am *account.Manager) error { return am.GetAccount(addr).SetAssetCode(code, a) }}
	case 5, 6:
		// only on assets which exist (callers check first)
		var have []common.Hash
		for _, c := range codes {
			if a, err := acc.GetAssetCode(c); err == nil && a != nil {
				have = append(have, c)
			}
		}
		if len(have) == 0 {
			return nil
		}
		code := have[rapid.IntRange(0, len(have)-1).Draw(t, "have")]
		if kind == 5 {
			v := big.NewInt(int64(rapid.IntRange(0, 5000).Draw(t, "total")))
			return &op{fmt.Sprintf("SetTotalSupply(%s,%s,%v)", short(addr), code.Hex()[60:], v), func(am *account.Manager) error { return am.GetAccount(addr).SetAssetCodeTotalSupply(code, v) }}
		}
		k, v := rapid.SampledFrom([]string{"freeze", "name", "extra"}).Draw(t, "pkey"), rapid.SampledFrom([]string{"true", "false", "x"}).Draw(t, "pval")
		return &op{fmt.Sprintf("SetAssetCodeState(%s,%s,%s=%s)", short(addr), code.Hex()[60:], k, v), func(am *account.Manager) error { return am.GetAccount(addr).SetAssetCodeState(code, k, v) }}
	case 7:
		id := ids[rapid.IntRange(0, len(ids)-1).Draw(t, "id")]
		meta := rapid.SampledFrom([]string{"", "m", "meta-2"}).Draw(t, "meta")
		return &op{fmt.Sprintf("SetAssetId(%s,%s,%q)", short(addr), id.Hex()[60:], meta), func(am *account.Manager) error { return am.GetAccount(addr).SetAssetIdState(id, meta) }}
	case 8, 9:
		id := ids[rapid.IntRange(0, len(ids)-1).Draw(t, "id")]
		eq := &types.AssetEquity{AssetCode: codes[0], AssetId: id, Equity: big.NewInt(int64(rapid.IntRange(0, 2000).Draw(t, "equity")))}
		return &op{fmt.Sprintf("SetEquity(%s,%s,%v)", short(addr), id.Hex()[60:], eq.Equity), func(am *account.Manager) error { return am.GetAccount(addr).SetEquityState(id, eq) }}
	case 10:
		p := types.Profile{"isCandidate": rapid.SampledFrom([]string{"true", "false"}).Draw(t, "isCand"), "nodeID": "abcd", "host": rapid.SampledFrom([]string{"h", "h2"}).Draw(t, "host"), "port": "7001", "incomeAddress": "x", "depositBalance": fmt.Sprint(rapid.IntRange(0, 999).Draw(t, "deposit")), "introduction": ""}
		return &op{fmt.Sprintf("SetCandidate(%s,%v)", short(addr), p), func(am *account.Manager) error { am.GetAccount(addr).SetCandidate(p); return nil }}
	case 11:
		// only keys which exist in the profile (unregister / refund do exactly that)
		prof := acc.GetCandidate()
		var keys []string
		for k := range prof {
			keys = append(keys, k)
		}
		if len(keys) == 0 {
			return nil
		}
		sort.Strings(keys)
		k := keys[rapid.IntRange(0, len(keys)-1).Draw(t, "ckey")]
		v := rapid.SampledFrom([]string{"", "false", "true", "42"}).Draw(t, "cval")
		return &op{fmt.Sprintf("SetCandidateState(%s,%s=%q)", short(addr), k, v), func(am *account.Manager) error { am.GetAccount(addr).SetCandidateState(k, v); return nil }}
	case 12:
		v := big.NewInt(int64(rapid.IntRange(0, 500).Draw(t, "votes")))
		if rapid.Bool().Draw(t, "voteFor") {
			to := cast[rapid.IntRange(0, len(cast)-1).Draw(t, "to")]
			return &op{fmt.Sprintf("SetVoteFor(%s,%s)", short(addr), short(to)), func(am *account.Manager) error { am.GetAccount(addr).SetVoteFor(to); return nil }}
		}
		return &op{fmt.Sprintf("SetVotes(%s,%v)", short(addr), v), func(am *account.Manager) error { am.GetAccount(addr).SetVotes(v); return nil }}
	case 13:
		n := rapid.IntRange(1, 3).Draw(t, "nsigners")
		var s types.Signers
		for i := 0; i < n; i++ {
			s = append(s, types.SignAccount{Address: cast[i], Weight: uint8(rapid.IntRange(1, 100).Draw(t, "w"))})
		}
		return &op{fmt.Sprintf("SetSigners(%s,%v)", short(addr), s), func(am *account.Manager) error { return am.GetAccount(addr).SetSingers(s) }}
	case 14:
		// code is set on an address without code (contract creation), self-destruct on one with code
		c, _ := acc.GetCode()
		if len(c) == 0 && !acc.GetSuicide() {
			code := types.Code(rapid.SliceOfN(rapid.Byte(), 1, 40).Draw(t, "newcode"))
			return &op{fmt.Sprintf("SetCode(%s,%x)", short(addr), []byte(code)), func(am *account.Manager) error { am.GetAccount(addr).SetCode(code); return nil }}
		}
		if len(c) > 0 {
			return &op{fmt.Sprintf("SetSuicide(%s)", short(addr)), func(am *account.Manager) error { am.GetAccount(addr).SetSuicide(true); return nil }}
		}
		return nil
	default:
		ev := &types.Event{Address: addr, Topics: []common.Hash{skeys[0]}, Data: []byte{byte(rapid.IntRange(0, 255).Draw(t, "ev"))}}
		return &op{fmt.Sprintf("PushEvent(%s,%x)", short(addr), ev.Data), func(am *account.Manager) error { am.GetAccount(addr).PushEvent(ev); return nil }}
	}
}

func short(a common.Address) string { return a.Hex()[38:] }

type snap struct {
	id      int
	nops    int
	nlogs   int
	dump    sim.StateDump
	history int
}

func TestC07API(t *testing.T) {
	rapid.Check(t, func(rt *rapid.T) {
		am := account.NewManager(baseHash, baseDB)
		var survived []*op // operations not undone
		var snaps []snap
		var history []string
		reverts, maxDepth, revertThenWriteThenRevert := 0, 0, false
		wroteAfterRevert := false

		rt.Repeat(map[string]func(*rapid.T){
			"mutate": func(t *rapid.T) {
				o := genOp(t, am)
				if o == nil {
					t.Skip("no such state")
				}
				history = append(history, o.desc)
				if err := o.do(am); err != nil {
					t.Fatalf("%s failed: %v\nhistory: %v", o.desc, err, history)
				}
				survived = append(survived, o)
				if reverts > 0 {
					wroteAfterRevert = true
				}
			},
			"snapshot": func(t *rapid.T) {
				if len(snaps) >= 5 {
					t.Skip("deep enough")
				}
				id := am.Snapshot()
				snaps = append(snaps, snap{id: id, nops: len(survived), nlogs: len(am.GetChangeLogs()), dump: dump(am), history: len(history)})
				history = append(history, fmt.Sprintf("snapshot()=%d", id))
				if len(snaps) > maxDepth {
					maxDepth = len(snaps)
				}
			},
			"revert": func(t *rapid.T) {
				if len(snaps) == 0 {
					t.Skip("no snapshot")
				}
				i := rapid.IntRange(0, len(snaps)-1).Draw(t, "which")
				s := snaps[i]
				history = append(history, fmt.Sprintf("revert(%d)", s.id))
				func() {
					defer func() {
						if r := recover(); r != nil {
							t.Fatalf("RevertToSnapshot(%d) panicked: %v\nhistory: %v", s.id, r, history)
						}
					}()
					am.RevertToSnapshot(s.id)
				}()
				if n := len(am.GetChangeLogs()); n != s.nlogs {
					t.Fatalf("after revert(%d) the journal holds %d logs, at the snapshot it held %d\nhistory: %v", s.id, n, s.nlogs, history)
				}
				if diff := s.dump.Diff(dump(am)); diff != "" {
					t.Fatalf("after revert(%d) the state differs from the state at the snapshot (- at snapshot, + now):\n%s\nhistory: %v", s.id, diff, history)
				}
				survived = survived[:s.nops]
				snaps = snaps[:i]
				if wroteAfterRevert {
					revertThenWriteThenRevert = true
				}
				reverts++
			},
		})

		// differential against a manager that only ever executed the surviving operations
		ref := account.NewManager(baseHash, baseDB)
		for _, o := range survived {
			if err := o.do(ref); err != nil {
				rt.Fatalf("reference replay of %s failed: %v", o.desc, err)
			}
		}
		if a, b := sim.RenderLogs(am.GetChangeLogs(), true), sim.RenderLogs(ref.GetChangeLogs(), true); !equalLines(a, b) {
			rt.Fatalf("journal differs from a manager that executed only the surviving operations:\n real: %v\n  ref: %v\nhistory: %v", a, b, history)
		}
		if diff := dump(ref).Diff(dump(am)); diff != "" {
			rt.Fatalf("state differs from a manager that executed only the surviving operations (- reference, + real):\n%s\nhistory: %v", diff, history)
		}
		am.MergeChangeLogs()
		ref.MergeChangeLogs()
		errA, errB := am.Finalise(), ref.Finalise()
		if (errA == nil) != (errB == nil) {
			rt.Fatalf("Finalise: real %v, reference %v\nhistory: %v", errA, errB, history)
		}
		if errA == nil {
			if a, b := sim.RenderLogs(am.GetChangeLogs(), true), sim.RenderLogs(ref.GetChangeLogs(), true); !equalLines(a, b) {
				rt.Fatalf("finalised logs differ:\n real: %v\n  ref: %v\nhistory: %v", a, b, history)
			}
			if am.GetVersionRoot() != ref.GetVersionRoot() {
				rt.Fatalf("version root differs after finalising\nhistory: %v", history)
			}
			opt := sim.DumpOptions{Roots: true, Versions: true}
			if diff := sim.DumpState(ref, cast, &baseKeys, opt).Diff(sim.DumpState(am, cast, &baseKeys, opt)); diff != "" {
				rt.Fatalf("finalised state differs (- reference, + real):\n%s\nhistory: %v", diff, history)
			}
		}
		nontrivial := revertThenWriteThenRevert && maxDepth >= 2
		sim.Case("api", sim.HashOf(history), nontrivial, []string{fmt.Sprintf("depth%d", maxDepth), fmt.Sprintf("reverts%d", min(reverts, 4))}, func() interface{} { return history })
	})
}

func equalLines(a, b []string) bool {
	if len(a) != len(b) {
		return false
	}
	for i := range a {
		if a[i] != b[i] {
			return false
		}
	}
	return true
}
