// C13 — mining schedule: exactly one deputy is in turn; miner and verifier agree.
//
// Oracle: the slot model sim.ModelInTurn, written from the statement (rotation by rank in fixed slots, starting
// after the parent's miner; from rank 0 at height 1 and at the first block of a term).
package c13

import (
	"fmt"
	"math/big"
	"testing"

	"verif/sim"

	"github.com/LemoFoundationLtd/lemochain-core/chain/consensus"
	"github.com/LemoFoundationLtd/lemochain-core/chain/deputynode"
	"github.com/LemoFoundationLtd/lemochain-core/chain/params"
	"github.com/LemoFoundationLtd/lemochain-core/chain/types"
	"github.com/LemoFoundationLtd/lemochain-core/common"
	"github.com/LemoFoundationLtd/lemochain-core/store"
	"pgregory.net/rapid"
)

const (
	termLen    = 40
	interimLen = 6
)

// fakeLoader serves the snapshot blocks of a two-term history.
type fakeLoader struct{ blocks map[uint32]*types.Block }

func (f *fakeLoader) GetBlockByHeight(h uint32) (*types.Block, error) {
	if b, ok := f.blocks[h]; ok {
		return b, nil
	}
	return nil, store.ErrBlockNotExist
}

func addr(term, i int) common.Address {
	return common.BytesToAddress([]byte{0x01, byte(term + 1), byte(i + 1), 0xaa})
}

func nodes(term, n int) types.DeputyNodes {
	res := make(types.DeputyNodes, 0, n)
	for i := 0; i < n; i++ {
		id := make([]byte, 64)
		id[0], id[1] = byte(term+1), byte(i+1)
		res = append(res, &types.DeputyNode{MinerAddress: addr(term, i), NodeID: id, Rank: uint32(i), Votes: big.NewInt(int64(100 - i))})
	}
	return res
}

// setup builds a deputy manager whose term 0 has n0 deputies and term 1 has n1 deputies (disjoint miner addresses),
// with `extra` additional listed candidates beyond the deputy count.
func setup(n0, n1, deputyCount int) *deputynode.Manager {
	params.TermDuration = termLen
	params.InterimDuration = interimLen
	loader := &fakeLoader{blocks: map[uint32]*types.Block{}}
	g := &types.Block{Header: &types.Header{Height: 0}}
	g.DeputyNodes = nodes(0, n0)
	loader.blocks[0] = g
	s := &types.Block{Header: &types.Header{Height: termLen}}
	s.DeputyNodes = nodes(1, n1)
	loader.blocks[termLen] = s
	return deputynode.NewManager(deputyCount, loader)
}

type scenario struct {
	name       string
	height     uint32 // height of the block to mine
	term       int    // term whose deputies sign `height`
	parentTerm int    // term of the parent's miner
	fromZero   bool   // model: rotation starts from rank 0
}

var rewardHeight = uint32(termLen + interimLen + 1)

func scenarios() []scenario {
	return []scenario{
		{"height1", 1, 0, 0, true},
		{"ordinary", 7, 0, 0, false},
		{"snapshot", termLen, 0, 0, false},
		{"interim-last", rewardHeight - 1, 0, 0, false},
		{"reward", rewardHeight, 1, 0, true},
		{"reward+1", rewardHeight + 1, 1, 1, false},
	}
}

type counters struct {
	evals      int
	nontrivial int
	classes    map[string]int
	samples    []interface{}
}

// checkPoint verifies everything the statement says at one instant `nowMs` for one (scenario, parent, n, T).
// effN is the number of deputies of the signing term; parentRank is the rank of the parent's miner in that term or -1.
type fataler interface {
	Fatalf(format string, args ...any)
}

func checkPoint(t fataler, dm *deputynode.Manager, v *consensus.Validator, sc scenario, effN int, slotMs int64, parent *types.Header, parentRank int, nowMs int64, c *counters) {
	parentMs := int64(parent.Time) * 1000
	modelParent := parentRank
	if sc.fromZero {
		modelParent = -1
	}
	elapsed := nowMs - parentMs
	c.evals++
	boundary := false
	if elapsed >= 0 {
		r := elapsed % slotMs
		boundary = r <= 1000 || r >= slotMs-1000
	}
	if boundary || sc.name != "ordinary" {
		c.nontrivial++
	}

	// (1) exactly one deputy is entitled at `now`, and it is the model's
	if elapsed >= 0 {
		want := sim.ModelInTurn(modelParent, effN, elapsed, slotMs)
		got, err := consensus.GetCorrectMiner(parent, nowMs, slotMs, dm)
		if err != nil {
			t.Fatalf("%s n=%d T=%d parentRank=%d now=parent+%dms: GetCorrectMiner error %v", sc.name, effN, slotMs, parentRank, elapsed, err)
		}
		if got != addr(sc.term, want) {
			t.Fatalf("%s n=%d T=%d parentRank=%d now=parent+%dms: in turn %s, model says rank %d (%s)", sc.name, effN, slotMs, parentRank, elapsed, got.Hex(), want, addr(sc.term, want).Hex())
		}
	}

	// (2) every deputy's own window is its earliest slot that has not ended yet, and inside it every verifier accepts it and nobody else
	for d := 0; d < effN; d++ {
		me := addr(sc.term, d)
		dist, err := dm.GetMinerDistance(sc.height, parent.MinerAddress, me)
		if err != nil {
			t.Fatalf("%s n=%d: GetMinerDistance(%d) error %v", sc.name, effN, d, err)
		}
		// distance and GetDeputyByDistance are inverse
		back, err := dm.GetDeputyByDistance(sc.height, parent.MinerAddress, dist)
		if err != nil || back.MinerAddress != me {
			t.Fatalf("%s n=%d parentRank=%d: GetDeputyByDistance(GetMinerDistance(rank %d)=%d) = %v, %v", sc.name, effN, parentRank, d, dist, back, err)
		}
		// model distance: number of slots from the parent's miner to d (1..n)
		var mdist int
		if modelParent < 0 {
			mdist = d + 1
		} else {
			mdist = ((d-modelParent-1)%effN+effN)%effN + 1
		}
		if int(dist) != mdist {
			t.Fatalf("%s n=%d parentRank=%d target=%d: distance %d, model %d", sc.name, effN, parentRank, d, dist, mdist)
		}
		from, to := consensus.GetNextMineWindow(sc.height, dist, parentMs, nowMs, slotMs, dm)
		// model window: earliest slot of d whose end is after now
		loop := int64(effN) * slotMs
		mfrom := parentMs + int64(mdist-1)*slotMs
		mto := mfrom + slotMs
		for mto <= nowMs {
			mfrom += loop
			mto += loop
		}
		if from != mfrom || to != mto {
			t.Fatalf("%s n=%d T=%d parentRank=%d target=%d now=parent%+dms: window [%d,%d) model [%d,%d) (relative to parent: [%d,%d) vs [%d,%d))",
				sc.name, effN, slotMs, parentRank, d, elapsed, from, to, mfrom, mto, from-parentMs, to-parentMs, mfrom-parentMs, mto-parentMs)
		}
		// instants inside the window at which the node could stamp a block
		for _, inst := range []int64{from, from + 1, from + slotMs/2, to - 1} {
			if inst < nowMs { // the node cannot mine in the past
				continue
			}
			stamp := inst / 1000 // PrepareHeader: whole seconds
			if stamp < int64(parent.Time) {
				stamp = int64(parent.Time)
			}
			for e := 0; e < effN; e++ {
				h := &types.Header{ParentHash: parent.Hash(), MinerAddress: addr(sc.term, e), Height: sc.height, Time: uint32(stamp)}
				err := v.VerifyMiner(h, parent)
				if e == d && err != nil {
					t.Fatalf("%s n=%d T=%d parentRank=%d: deputy %d mines at %dms inside its own window [%d,%d) (stamp %d) and is rejected: %v", sc.name, effN, slotMs, parentRank, d, inst-parentMs, from-parentMs, to-parentMs, stamp, err)
				}
				if e != d && err == nil {
					t.Fatalf("%s n=%d T=%d parentRank=%d: deputy %d accepted at %dms inside the window of deputy %d", sc.name, effN, slotMs, parentRank, e, inst-parentMs, d)
				}
			}
		}
	}
}

func parentHeader(sc scenario, parentRank int, parentTime uint32) *types.Header {
	miner := addr(sc.parentTerm, parentRank)
	if sc.name == "height1" {
		miner = common.HexToAddress("0xf0f0") // genesis is mined by the founder, not a deputy
	}
	return &types.Header{Height: sc.height - 1, MinerAddress: miner, Time: parentTime}
}

// parentVariants lists the parent headers to try for a scenario: for ordinary heights one per parent rank; where the
// rotation restarts from rank 0 (height 1, first block of a term) additionally a parent whose miner IS a deputy of the
// signing term (a re-elected deputy mined the last block of the old term / the genesis miner is a deputy): the
// statement says the rotation starts from rank 0 there whoever mined the parent.
func parentVariants(sc scenario, pN, effN int, parentTime uint32) []struct {
	h    *types.Header
	rank int
} {
	var res []struct {
		h    *types.Header
		rank int
	}
	for pr := 0; pr < pN; pr++ {
		rank := pr
		if sc.fromZero {
			rank = -1
		}
		res = append(res, struct {
			h    *types.Header
			rank int
		}{parentHeader(sc, pr, parentTime), rank})
	}
	if sc.fromZero {
		for r := 0; r < effN; r++ {
			res = append(res, struct {
				h    *types.Header
				rank int
			}{&types.Header{Height: sc.height - 1, MinerAddress: addr(sc.term, r), Time: parentTime}, -1})
		}
	}
	return res
}

func classKey(sc scenario, n int, slotMs int64) string {
	return fmt.Sprintf("%s/n%d/T%d", sc.name, n, slotMs/1000)
}

// TestC13Enumerate enumerates the bounded domain completely.
func TestC13Enumerate(t *testing.T) {
	sim.Quiet()
	defer sim.DefaultTerms()
	maxN, slots, rounds := 5, []int64{1000, 3000}, int64(3)
	if sim.Tier() == "thorough" {
		maxN, slots = 9, []int64{1000, 2000, 3000, 10000}
	}
	c := &counters{classes: map[string]int{}}
	shard, shards := sim.Shard() // the domain is split by deputy count over the shard processes (each still enumerates its part completely)
	for n := 1; n <= maxN; n++ {
		if (n-1)%shards != shard {
			continue
		}
		for _, n1 := range []int{n, (n % maxN) + 1} { // next term: same size and a different size
			for _, extra := range []int{0, 3} { // listed candidates beyond the deputy count
				dc := n // the configured deputy count: term 0 has exactly n deputies, term 1 has min(n1+extra, n)
				dm := setup(n+extra, n1+extra, dc)
				for _, slotMs := range slots {
					v := consensus.NewValidator(uint64(slotMs), nil, dm, nil, nil)
					for _, sc := range scenarios() {
						effN := min(n+extra, dc)
						if sc.term == 1 {
							effN = min(n1+extra, dc)
						}
						pN := min(n+extra, dc)
						if sc.parentTerm == 1 {
							pN = min(n1+extra, dc)
						}
						if sc.name == "height1" {
							pN = 1
						}
						for _, pv := range parentVariants(sc, pN, effN, sim.T0) {
							parent, parentRank := pv.h, pv.rank
							parentMs := int64(sim.T0) * 1000
							end := parentMs + rounds*int64(effN)*slotMs
							for now := parentMs - slotMs; now <= end; now += 250 {
								checkPoint(t, dm, v, sc, effN, slotMs, parent, parentRank, now, c)
								c.classes[classKey(sc, effN, slotMs)]++
							}
							// every slot boundary +-1 ms
							for b := parentMs; b <= end; b += slotMs {
								for _, dlt := range []int64{-1, 0, 1} {
									checkPoint(t, dm, v, sc, effN, slotMs, parent, parentRank, b+dlt, c)
								}
							}
							if len(c.samples) < 4 {
								c.samples = append(c.samples, map[string]interface{}{"scenario": sc.name, "deputies": effN, "slot_ms": slotMs, "parent_rank": parentRank, "instants": fmt.Sprintf("parent-%dms .. parent+%dms step 250ms + boundaries +-1ms", slotMs, end-parentMs)})
							}
						}
					}
				}
			}
		}
	}
	sim.Bulk("enumerate", c.evals, c.nontrivial, c.classes, c.samples, true)
}

// TestC13Random draws large times, many elapsed rounds and arbitrary sizes beyond the enumerated box.
func TestC13Random(t *testing.T) {
	sim.Quiet()
	defer sim.DefaultTerms()
	rapid.Check(t, func(rt *rapid.T) {
		n := rapid.IntRange(1, 17).Draw(rt, "n")
		n1 := rapid.IntRange(1, 17).Draw(rt, "n1")
		extra := rapid.IntRange(0, 4).Draw(rt, "extra")
		slotMs := int64(rapid.IntRange(1, 30).Draw(rt, "slotSec")) * 1000
		dc := rapid.IntRange(1, 17).Draw(rt, "deputyCount")
		dm := setup(n+extra, n1+extra, dc)
		v := consensus.NewValidator(uint64(slotMs), nil, dm, nil, nil)
		scs := scenarios()
		sc := scs[rapid.IntRange(0, len(scs)-1).Draw(rt, "scenario")]
		effN := min(n+extra, dc)
		if sc.term == 1 {
			effN = min(n1+extra, dc)
		}
		pN := min(n+extra, dc)
		if sc.parentTerm == 1 {
			pN = min(n1+extra, dc)
		}
		if sc.name == "height1" {
			pN = 1
		}
		parentTime := rapid.Uint32Range(1500000000, 4000000000).Draw(rt, "parentTime")
		pvs := parentVariants(sc, pN, effN, parentTime)
		pr := rapid.IntRange(0, len(pvs)-1).Draw(rt, "parentVariant")
		parent, parentRank := pvs[pr].h, pvs[pr].rank
		loops := rapid.Int64Range(0, 2000).Draw(rt, "loops")
		within := rapid.Int64Range(-int64(slotMs), int64(effN)*slotMs).Draw(rt, "within")
		now := int64(parentTime)*1000 + loops*int64(effN)*slotMs + within
		c := &counters{classes: map[string]int{}}
		checkPoint(rt, dm, v, sc, effN, slotMs, parent, parentRank, now, c)
		sim.Case("random", sim.HashOf(n, n1, extra, slotMs, sc.name, pr, parentTime, loops, within), c.nontrivial > 0,
			[]string{sc.name, fmt.Sprintf("loops>%d", bucket(loops))}, func() interface{} {
				return map[string]interface{}{"n": n, "n1": n1, "extra": extra, "slot_ms": slotMs, "scenario": sc.name, "parent_rank": pr, "parent_time": parentTime, "elapsed_ms": now - int64(parentTime)*1000}
			})
	})
}

func bucket(l int64) int64 {
	switch {
	case l == 0:
		return 0
	case l < 10:
		return 1
	case l < 100:
		return 10
	}
	return 100
}
