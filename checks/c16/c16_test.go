// C16 — contract execution is sandboxed: bounded by gas, deterministic, all-or-nothing.
// (The same executions feed C07 unit "evm": the journal must agree with a replay of the surviving operations.)
package c16

import (
	"fmt"
	"math/big"
	"os"
		"testing"

	"verif/evmcheck"
	"verif/sim"

	"github.com/LemoFoundationLtd/lemochain-core/common"
	"pgregory.net/rapid"
)

var base *sim.EvmBase

func TestMain(m *testing.M) {
	sim.Quiet()
	base = sim.NewEvmBase()
	code := m.Run()
	base.DB.Close()
	os.RemoveAll(sim.TmpRoot())
	os.Exit(code)
}

func TestC16Programs(t *testing.T) {
	rapid.Check(t, func(rt *rapid.T) {
		c := base.GenEvmCase(rt)
		p := evmcheck.CheckCase(rt, base, c)
		nontrivial := p.RevertAfterWrite || (p.Reverts > 0 && p.MaxLive >= 2)
		cls := []string{fmt.Sprintf("reverts%d", min(p.Reverts, 3)), fmt.Sprintf("nesting%d", min(p.MaxLive, 4)), "end-" + c.Stats.Ending}
		if p.RevertAfterWrite {
			cls = append(cls, "revert-undid-writes")
		}
		if p.NestedFailThenWrite {
			cls = append(cls, "write-after-revert")
		}
		if c.Stats.Creates > 0 {
			cls = append(cls, "create")
		}
		if c.Stats.Suicides > 0 {
			cls = append(cls, "selfdestruct")
		}
		for _, call := range c.Calls {
			cls = append(cls, "entry-"+call.Kind)
		}
		sim.Case("programs", sim.HashOf(c.Describe()), nontrivial, cls, func() interface{} { return c.Describe() })
	})
}

// TestC16Depth: a self-recursive contract with astronomically much gas stops at the depth limit and still terminates.
func TestC16Depth(t *testing.T) {
	rapid.Check(t, func(rt *rapid.T) {
		self := base.Contracts[2]
		c := &sim.EvmCase{Programs: [][]byte{{0x00}, {0x00}, sim.RecursiveProgram(self)}}
		gas := rapid.SampledFrom([]uint64{1 << 40, 1 << 50, 1 << 62, 9000000, 3000000}).Draw(rt, "gas")
		c.Calls = []*sim.EvmCall{{Kind: "call", From: base.Senders[0], To: self, Gas: gas, Value: big.NewInt(int64(rapid.IntRange(0, 1).Draw(rt, "value"))), TxHash: common.BytesToHash([]byte{0xdd})}}
		o := evmcheck.Execute(rt, base, c, true)
		r := o.Results[0]
		if gas >= 1<<40 && r.MaxDepth != 1025 {
			rt.Fatalf("recursion with %d gas reached depth %d, the limit is 1024 nested calls below the entry frame (1025)", gas, r.MaxDepth)
		}
		sim.Case("depth", sim.HashOf(gas, c.Calls[0].Value), r.MaxDepth > 100, []string{fmt.Sprintf("depth>%d", r.MaxDepth/200*200)}, func() interface{} {
			return map[string]interface{}{"gas": gas, "max_depth": r.MaxDepth, "result": r.String()}
		})
	})
}

// FuzzBytecode: coverage-guided raw bytecode and call data; the oracles of checkCase run inside the target.
func FuzzBytecode(f *testing.F) {
	f.Add([]byte{0x60, 0x01, 0x60, 0x00, 0x55, 0x00}, []byte{}, uint32(100000), uint8(0))
	f.Add(sim.RecursiveProgram(common.HexToAddress("0x0200000000000000000000000000000000000c01")), []byte{1, 2, 3}, uint32(3000000), uint8(1))
	f.Add([]byte{0x60, 0x00, 0x60, 0x00, 0x60, 0x00, 0x60, 0x00, 0x60, 0x01, 0x73, 0x02, 0, 0, 0, 0, 0, 0, 0, 0, 0, 0, 0, 0, 0, 0, 0, 0, 0, 0x0c, 0x02, 0x5a, 0xf1, 0x50, 0xfe}, []byte{}, uint32(200000), uint8(10))
	f.Add([]byte{0x33, 0xff}, []byte{}, uint32(50000), uint8(5))
	f.Fuzz(func(t *testing.T, code, input []byte, gas uint32, value uint8) {
		if len(code) > 400 {
			return
		}
		c := &sim.EvmCase{Programs: [][]byte{code, {0x60, 0x00, 0x60, 0x00, 0xfd}, {0x60, 0x2a, 0x60, 0x00, 0x55, 0x00}}}
		g := uint64(gas % 3000001)
		c.Calls = []*sim.EvmCall{
			{Kind: "call", From: base.Senders[0], To: base.Contracts[0], Input: input, Gas: g, Value: big.NewInt(int64(value)), TxHash: common.BytesToHash([]byte{0xf1})},
			{Kind: "create", From: base.Senders[1], Input: code, Gas: g, Value: big.NewInt(int64(value % 3)), TxHash: common.BytesToHash([]byte{0xf2})},
			{Kind: "static", From: base.Senders[0], To: base.Contracts[0], Input: input, Gas: g, Value: new(big.Int), TxHash: common.BytesToHash([]byte{0xf3})},
		}
		evmcheck.CheckCase(t, base, c)
	})
}

// TestC16KnownRecreate pins the minimal input of the listed finding undo-code-after-recreate, so that every run shows the
// matcher explaining exactly this case (and a change of the behaviour shows up as a violation of another kind).
func TestC16KnownRecreate(t *testing.T) {
	base := sim.NewEvmBase()
	// C = [mstore(init code of a child with runtime ff); CREATE; CALL C; CALL C; ...]: every recursion creates the same child again
	prog := common.FromHex("7f0000000000000000000000000000000000000000000060ff60005360016000f3600052600a60166000f05060006000015060006000600060006000730200000000000000000000000000000000000c025af15060006000600060006000730200000000000000000000000000000000000c025af15060006000015060006000015000")
	c := &sim.EvmCase{Programs: [][]byte{{0x00}, prog, {}}}
	c.Calls = []*sim.EvmCall{{Kind: "call", From: base.Senders[0], To: base.Contracts[1], Gas: 3000000, Value: new(big.Int), TxHash: common.BytesToHash([]byte{0xa1})}}
	p := evmcheck.CheckCase(t, base, c)
	if len(p.CodeOverwritten) == 0 {
		t.Fatalf("the pinned case no longer sets code over existing code: the listed finding undo-code-after-recreate does not reproduce any more (remove it from known_findings.json)")
	}
	sim.Case("known-recreate", "pinned", true, []string{"pinned-known-finding"}, func() interface{} { return c.Describe() })
}
