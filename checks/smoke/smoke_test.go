package smoke

import (
	"os"
	"testing"
	"time"

	"verif/sim"

	"github.com/LemoFoundationLtd/lemochain-core/chain/types"
)

func TestSmoke(t *testing.T) {
	sim.ResetGlobals()
	defer os.RemoveAll(sim.TmpRoot())
	w := sim.NewWorld("smoke", 3, 4)
	f := sim.NewNode(w, w.Deputies[0], 17)
	v := sim.NewNode(w, nil, 17)
	defer f.Destroy()
	defer v.Destroy()
	t0 := time.Now()
	parent := f.Genesis
	exp := uint64(sim.T0 + 1000)
	var blocks []*types.Block
	for i := 0; i < 5; i++ {
		txs := types.Transactions{sim.Transfer(w.Founder, w.Users[i%4].Addr, sim.Lemo(int64(100+i)), exp)}
		b := f.MineNext(parent, txs)
		if len(b.Txs) != 1 {
			t.Fatalf("block %d packaged %d txs", i, len(b.Txs))
		}
		blocks = append(blocks, b)
		parent = b
	}
	t.Logf("mined 5 blocks in %v, head %d stable %d", time.Since(t0), f.Current().Height(), f.Stable().Height())
	t0 = time.Now()
	for _, b := range blocks {
		if err := v.Insert(b); err != nil {
			t.Fatalf("validator rejects block %d: %v", b.Height(), err)
		}
	}
	t.Logf("validated in %v, head %d stable %d", time.Since(t0), v.Current().Height(), v.Stable().Height())
	// confirms from deputy 1 make 2/3
	for _, b := range blocks {
		v.BC.InsertConfirms(b.Height(), b.Hash(), []types.SignData{sim.ConfirmAs(b, w.Deputies[(int(b.Height()))%3])})
	}
	t.Logf("after confirms: head %d stable %d", v.Current().Height(), v.Stable().Height())
	if v.Stable().Height() < 4 {
		t.Fatalf("stable did not advance")
	}
	bal := v.View(v.Current().Hash()).GetAccount(w.Users[0].Addr).GetBalance()
	t.Logf("user0 balance %v", bal)
	v.Reopen()
	t.Logf("after reopen: head %d stable %d", v.Current().Height(), v.Stable().Height())
}
