// C12 — issued assets are conserved and only their holders / issuers can move or mint them.
package c12

import (
	"encoding/json"
	"fmt"
	"math/big"
	"os"
	"testing"

	"verif/sim"

	"github.com/LemoFoundationLtd/lemochain-core/chain/params"
	"github.com/LemoFoundationLtd/lemochain-core/chain/types"
	"github.com/LemoFoundationLtd/lemochain-core/common"
	"pgregory.net/rapid"
)

func TestMain(m *testing.M) {
	sim.Quiet()
	code := m.Run()
	os.RemoveAll(sim.TmpRoot())
	os.Exit(code)
}

func join(h []string) string {
	out := ""
	for _, l := range h {
		out += "  " + l + "\n"
	}
	return out
}

// ledger is the asset state of one block, read through the public account accessors.
type ledger struct {
	supply    map[common.Hash]*big.Int                    // asset code -> recorded total supply
	divisible map[common.Hash]bool                        // asset code -> divisible
	frozen    map[common.Hash]bool                        // asset code -> frozen
	issuer    map[common.Hash]common.Address              // asset code -> issuer
	equity    map[common.Address]map[common.Hash]*big.Int // holder -> asset id -> equity
	codeOf    map[common.Hash]common.Hash                 // asset id -> asset code
}

func readLedger(s *sim.Scenario, n *sim.Node, hash common.Hash) *ledger {
	l := &ledger{supply: map[common.Hash]*big.Int{}, divisible: map[common.Hash]bool{}, frozen: map[common.Hash]bool{}, issuer: map[common.Hash]common.Address{},
		equity: map[common.Address]map[common.Hash]*big.Int{}, codeOf: map[common.Hash]common.Hash{}}
	view := n.View(hash)
	for _, a := range s.Gen.Assets {
		acc := view.GetAccount(a.Issuer.Addr)
		if asset, err := acc.GetAssetCode(a.Code); err == nil && asset != nil {
			l.supply[a.Code] = new(big.Int).Set(asset.TotalSupply)
			l.divisible[a.Code] = asset.IsDivisible
			l.frozen[a.Code] = asset.Profile[types.AssetFreeze] == "true"
			l.issuer[a.Code] = asset.Issuer
		}
	}
	for _, addr := range s.AddrList() {
		acc := view.GetAccount(addr)
		for _, id := range s.Keys.Ids {
			if eq, err := acc.GetEquityState(id); err == nil && eq != nil && eq.Equity != nil {
				if l.equity[addr] == nil {
					l.equity[addr] = map[common.Hash]*big.Int{}
				}
				l.equity[addr][id] = new(big.Int).Set(eq.Equity)
				l.codeOf[id] = eq.AssetCode
			}
		}
	}
	return l
}

func (l *ledger) held(code common.Hash) *big.Int {
	sum := new(big.Int)
	for _, ids := range l.equity {
		for id, v := range ids {
			if l.codeOf[id] == code {
				sum.Add(sum, v)
			}
		}
	}
	return sum
}

type assetTx struct {
	kind   string
	from   common.Address
	to     common.Address
	code   common.Hash
	id     common.Hash
	amount *big.Int
}

func parseAssetTx(tx *types.Transaction) *assetTx {
	a := &assetTx{from: tx.From()}
	if tx.To() != nil {
		a.to = *tx.To()
	}
	var raw map[string]interface{}
	_ = json.Unmarshal(tx.Data(), &raw)
	str := func(k string) string { v, _ := raw[k].(string); return v }
	num := func(k string) *big.Int { v, _ := new(big.Int).SetString(str(k), 10); return v }
	switch tx.Type() {
	case params.IssueAssetTx:
		a.kind, a.code, a.amount = "issue", common.HexToHash(str("assetCode")), num("supplyAmount")
	case params.ReplenishAssetTx:
		a.kind, a.code, a.id, a.amount = "replenish", common.HexToHash(str("assetCode")), common.HexToHash(str("assetId")), num("replenishAmount")
	case params.TransferAssetTx:
		a.kind, a.id, a.amount = "transfer", common.HexToHash(str("assetId")), num("transferAmount")
	case params.ModifyAssetTx:
		a.kind, a.code = "modify", common.HexToHash(str("assetCode"))
	default:
		return nil
	}
	return a
}

func flatten(b *types.Block) types.Transactions {
	var res types.Transactions
	for _, tx := range b.Txs {
		if tx.Type() == params.BoxTx {
			if box, err := types.GetBox(tx.Data()); err == nil {
				res = append(res, box.SubTxList...)
			}
			continue
		}
		res = append(res, tx)
	}
	return res
}

func checkBlock(t *rapid.T, s *sim.Scenario, before, after *ledger, b *types.Block, offered []*sim.GenTx) (adversarial bool) {
	fail := func(format string, args ...interface{}) {
		t.Fatalf("block %d: %s\n%s\nhistory:\n%s", b.Height(), fmt.Sprintf(format, args...), s.DescribeBlock(b, offered), join(s.History))
	}
	// conservation: recorded supply == sum of all holders' equity, for every divisible asset
	for code, sup := range after.supply {
		if sup.Sign() < 0 {
			fail("asset %s has negative total supply %v", code.Hex()[58:], sup)
		}
		if after.divisible[code] {
			if held := after.held(code); held.Cmp(sup) != 0 {
				fail("asset %s: recorded total supply %v, holders own %v", code.Hex()[58:], sup, held)
			}
		}
	}
	for h, ids := range after.equity {
		for id, v := range ids {
			if v.Sign() < 0 {
				fail("%s holds negative equity %v of asset id %s", h.Hex(), v, id.Hex()[58:])
			}
		}
	}
	// what the packaged transactions are entitled to do
	minted := map[common.Hash]*big.Int{}
	maySpend := map[common.Address]map[common.Hash]bool{}
	touched := map[common.Hash]bool{} // codes with an asset transaction in this block
	for _, tx := range flatten(b) {
		a := parseAssetTx(tx)
		if a == nil {
			continue
		}
		if a.amount != nil && (a.amount.Sign() <= 0 || a.amount.BitLen() > 200) {
			adversarial = true
		}
		switch a.kind {
		case "issue", "replenish":
			touched[a.code] = true
			if iss, ok := before.issuer[a.code]; ok && iss != a.from {
				fail("%s minted asset %s which was issued by %s", a.from.Hex(), a.code.Hex()[58:], iss.Hex())
			}
			if a.amount == nil || a.amount.Sign() <= 0 {
				fail("a packaged %s transaction has amount %v", a.kind, a.amount)
			}
			if minted[a.code] == nil {
				minted[a.code] = new(big.Int)
			}
			if before.divisible[a.code] || after.divisible[a.code] {
				minted[a.code].Add(minted[a.code], a.amount)
			} else {
				minted[a.code].Add(minted[a.code], big.NewInt(1))
			}
		case "transfer":
			touched[before.codeOf[a.id]] = true
			touched[after.codeOf[a.id]] = true
			if maySpend[a.from] == nil {
				maySpend[a.from] = map[common.Hash]bool{}
			}
			maySpend[a.from][a.id] = true
			if a.amount == nil || a.amount.Sign() < 0 {
				fail("a packaged asset transfer has amount %v", a.amount)
			}
		case "modify":
			touched[a.code] = true
			if iss, ok := before.issuer[a.code]; ok && iss != a.from {
				fail("%s modified asset %s which was issued by %s", a.from.Hex(), a.code.Hex()[58:], iss.Hex())
			}
		}
	}
	// supply grows exactly by what the issuer minted; it shrinks only by what holders destroyed (their own equity)
	for code, sup := range after.supply {
		old := before.supply[code]
		if old == nil {
			old = new(big.Int)
		}
		grow := new(big.Int).Sub(sup, old)
		m := minted[code]
		if m == nil {
			m = new(big.Int)
		}
		if grow.Cmp(m) > 0 {
			fail("total supply of asset %s grows by %v, the issuer's packaged issue / replenish transactions mint %v", code.Hex()[58:], grow, m)
		}
		if !touched[code] && grow.Sign() != 0 {
			fail("total supply of asset %s changes by %v without any asset transaction", code.Hex()[58:], grow)
		}
	}
	// no equity decreases unless its holder sent a packaged transfer of exactly that asset id
	for h, ids := range before.equity {
		for id, old := range ids {
			now := new(big.Int)
			if after.equity[h] != nil && after.equity[h][id] != nil {
				now = after.equity[h][id]
			}
			if now.Cmp(old) < 0 && !(maySpend[h] != nil && maySpend[h][id]) {
				fail("equity of %s in asset id %s drops from %v to %v although %s sent no transfer of it", h.Hex(), id.Hex()[58:], old, now, h.Hex())
			}
		}
	}
	// frozen assets do not move. Within a block the issuer may unfreeze and freeze again: follow the packaged transactions in order
	refrozen := map[common.Hash]bool{}
	{
		frozenNow := map[common.Hash]bool{}
		for code, fr := range before.frozen {
			frozenNow[code] = fr
		}
		for _, tx := range flatten(b) {
			switch tx.Type() {
			case params.ModifyAssetTx:
				if info, err := types.GetModifyAssetInfo(tx.Data()); err == nil {
					if v, ok := info.UpdateProfile["freeze"]; ok {
						frozenNow[info.AssetCode] = v == "true"
						refrozen[info.AssetCode] = true
					}
				}
			case params.TransferAssetTx:
				if a := parseAssetTx(tx); a != nil {
					if code, ok := after.codeOf[a.id]; ok && frozenNow[code] && a.amount != nil && a.amount.Sign() > 0 {
						fail("asset %s is frozen at this point of the block but a transfer of %v of id %s was packaged", code.Hex()[58:], a.amount, a.id.Hex()[58:])
					}
				}
			}
		}
	}
	for code, fr := range before.frozen {
		if !fr || !after.frozen[code] || refrozen[code] {
			continue
		}
		for h, ids := range after.equity {
			for id, v := range ids {
				if after.codeOf[id] != code {
					continue
				}
				old := new(big.Int)
				if before.equity[h] != nil && before.equity[h][id] != nil {
					old = before.equity[h][id]
				}
				if old.Cmp(v) != 0 {
					fail("asset %s is frozen but equity of %s changes from %v to %v", code.Hex()[58:], h.Hex(), old, v)
				}
			}
		}
	}
	return adversarial
}

func TestC12Assets(t *testing.T) {
	rapid.Check(t, func(rt *rapid.T) {
		w := sim.Weights{Transfer: 1, Contract: 1, Asset: 14, Box: 2, Decoy: 1}
		s := sim.NewScenario(1, w) // one deputy: asset transactions need their asset's creation to be stable
		defer s.Close()
		s.Gen.NoBoundary = true
		nblocks := rapid.IntRange(3, 9).Draw(rt, "nblocks")
		adversarial, holders := false, 0
		var classes []string
		for i := 0; i < nblocks; i++ {
			parent := s.Head()
			dep, when := s.NextSlot(rt, parent)
			offered := s.GenBlockTxs(rt, parent, when, rapid.IntRange(1, 7).Draw(rt, "ntxs"))
			header := sim.Header(parent, dep.Miner.Addr, when, "")
			trial, _, err := s.F.Assemble(dep, header, sim.Txs(offered))
			if err != nil {
				rt.Fatalf("assemble: %v", err)
			}
			for _, a := range s.Keys.HarvestLogs(trial.ChangeLogs) {
				s.Addrs[a] = true
			}
			for _, g := range offered {
				s.Addrs[g.Tx.From()] = true
				if g.Tx.To() != nil {
					s.Addrs[*g.Tx.To()] = true
				}
			}
			before := readLedger(s, s.V, parent.Hash())
			b, verdict := s.MineAndValidate(dep, parent, when, offered)
			if b == nil || verdict != nil {
				rt.Fatalf("block not produced / accepted: %v\nhistory:\n%s", verdict, join(s.History))
			}
			// the asset indexes are written behind the stable commit: let them land before the next block depends on them
			s.F.Drain()
			s.V.Drain()
			after := readLedger(s, s.V, b.Hash())
			if checkBlock(rt, s, before, after, b, offered) {
				adversarial = true
			}
			for _, tx := range flatten(b) {
				if a := parseAssetTx(tx); a != nil {
					classes = append(classes, "packaged-"+a.kind)
				}
			}
			for _, g := range offered {
				list := types.Transactions{g.Tx}
				if g.Tx.Type() == params.BoxTx {
					if box, err := types.GetBox(g.Tx.Data()); err == nil {
						list = box.SubTxList
					}
				}
				for _, tx := range list {
					if a := parseAssetTx(tx); a != nil && a.amount != nil && (a.amount.Sign() <= 0 || a.amount.BitLen() > 200) {
						adversarial = true
						classes = append(classes, "offered-adversarial-amount-"+a.kind)
					}
				}
			}
			for _, c := range s.Gen.Assets {
				n := 0
				for _, ids := range after.equity {
					for id := range ids {
						if after.codeOf[id] == c.Code {
							n++
						}
					}
				}
				if n > holders {
					holders = n
				}
			}
		}
		sim.Case("assets", sim.HashOf(s.History), holders >= 2 && adversarial, append(classes, fmt.Sprintf("max-holders%d", min(holders, 4))), func() interface{} { return s.History })
	})
}
