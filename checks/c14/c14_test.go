package c14

import (
	"bytes"
	"encoding/json"
	"fmt"
	"math/big"
	"os"
	"reflect"
	"sort"
	"strings"
	"testing"
	"unicode/utf8"

	"verif/sim"

	"github.com/LemoFoundationLtd/lemochain-core/chain/account"
	"github.com/LemoFoundationLtd/lemochain-core/chain/types"
	"github.com/LemoFoundationLtd/lemochain-core/common"
	"github.com/LemoFoundationLtd/lemochain-core/common/rlp"
	"github.com/LemoFoundationLtd/lemochain-core/network"
	"github.com/LemoFoundationLtd/lemochain-core/store"
	"pgregory.net/rapid"
)

var sharedDB *store.ChainDatabase

func TestMain(m *testing.M) {
	sim.Quiet()
	dir := sim.NewDir()
	sharedDB = store.NewChainDataBase(dir)
	code := m.Run()
	sharedDB.Close()
	os.RemoveAll(sim.TmpRoot())
	os.Exit(code)
}

type fataler interface {
	Fatalf(format string, args ...any)
}

func enc(t fataler, v interface{}) []byte {
	b, err := rlp.EncodeToBytes(v)
	if err != nil {
		t.Fatalf("encode %T: %v", v, err)
	}
	return b
}

// roundTrip: decode(encode(v)) into `into` (a fresh pointer), re-encode, bytes must be identical.
func roundTrip(t fataler, what string, v interface{}, into interface{}) []byte {
	b := enc(t, v)
	if err := rlp.DecodeBytes(b, into); err != nil {
		t.Fatalf("%s: decoding its own encoding failed: %v\nencoding: %x", what, err, b)
	}
	b2 := enc(t, into)
	if !bytes.Equal(b, b2) {
		t.Fatalf("%s: re-encoding the decoded value changed the bytes\n first: %x\nsecond: %x", what, b, b2)
	}
	return b
}

func TestC14Header(t *testing.T) {
	rapid.Check(t, func(rt *rapid.T) {
		h := genHeader().Draw(rt, "header")
		var d types.Header
		roundTrip(rt, "header", h, &d)
		if d.Hash() != h.Hash() {
			rt.Fatalf("header hash changed by round trip: %s -> %s\n%v\n%v", h.Hash().Hex(), d.Hash().Hex(), h, &d)
		}
		if d.ParentHash != h.ParentHash || d.MinerAddress != h.MinerAddress || d.VersionRoot != h.VersionRoot || d.TxRoot != h.TxRoot || d.LogRoot != h.LogRoot ||
			d.Height != h.Height || d.GasLimit != h.GasLimit || d.GasUsed != h.GasUsed || d.Time != h.Time || !bytes.Equal(d.SignData, h.SignData) ||
			!bytes.Equal(d.DeputyRoot, h.DeputyRoot) || d.Extra != h.Extra {
			rt.Fatalf("header fields changed by round trip:\n%v\n%v", h, &d)
		}
		// json round trip keeps the hash too
		js, err := json.Marshal(h)
		if err == nil && utf8.ValidString(h.Extra) { // JSON cannot carry invalid UTF-8: outside the domain of the JSON form
			var jh types.Header
			if err := json.Unmarshal(js, &jh); err == nil && jh.Hash() != h.Hash() && len(h.SignData) > 0 {
				rt.Fatalf("header hash changed by JSON round trip: %s", js)
			}
		}
		nontrivial := h.TxRoot == (common.Hash{}) || h.LogRoot == (common.Hash{}) || len(h.DeputyRoot) == 0 || len(h.SignData) == 0 || h.Extra == ""
		sim.Case("header", sim.HashOf(fmt.Sprintf("%x", enc(rt, h))), nontrivial, nil, func() interface{} { return h.String() })
	})
}

func signers(tx *types.Transaction) string {
	var parts []string
	for _, s := range []types.Signer{types.MakeSigner(), types.MakeReimbursementTxSigner(), types.MakeGasPayerSigner()} {
		addrs, err := s.GetSigners(tx)
		parts = append(parts, fmt.Sprintf("%v/%v", addrs, err))
	}
	return strings.Join(parts, ";")
}

func TestC14Tx(t *testing.T) {
	keys := []*sim.Actor{sim.NewActor("c14/a"), sim.NewActor("c14/b"), sim.NewActor("c14/c")}
	rapid.Check(t, func(rt *rapid.T) {
		tx := genTx(0).Draw(rt, "tx")
		nsig := rapid.IntRange(0, 3).Draw(rt, "nsig")
		reimb := len(tx.GasPayerSigs()) == 0 && tx.GasPayer() != tx.From()
		for i := 0; i < nsig; i++ {
			var err error
			if reimb {
				tx, err = types.MakeReimbursementTxSigner().SignTx(tx, keys[i].Key)
			} else {
				tx, err = types.MakeSigner().SignTx(tx, keys[i].Key)
			}
			if err != nil {
				rt.Fatalf("sign: %v", err)
			}
		}
		if reimb && rapid.Bool().Draw(rt, "payerSig") {
			var err error
			tx, err = types.MakeGasPayerSigner().SignTx(tx, keys[2].Key)
			if err != nil {
				rt.Fatalf("payer sign: %v", err)
			}
		}
		nilPayer := false
		if rapid.IntRange(0, 3).Draw(rt, "nilPayer") == 0 {
			// the optional gas payer pointer absent (as in a transaction that arrived as JSON without the field):
			// no constructor builds this shape, so it is made by clearing field 5 of the encoding
			var fields []rlp.RawValue
			if err := rlp.DecodeBytes(enc(rt, tx), &fields); err != nil || len(fields) < 5 {
				rt.Fatalf("split tx encoding: %v", err)
			}
			fields[4] = rlp.RawValue{0x80}
			var np types.Transaction
			if err := rlp.DecodeBytes(enc(rt, fields), &np); err != nil {
				rt.Fatalf("tx without gas payer does not decode: %v", err)
			}
			if offered, again := enc(rt, fields), enc(rt, &np); !bytes.Equal(offered, again) {
				rt.Fatalf("transaction without gas payer: re-encoding the decoded value changed the bytes\noffered: %x\n  again: %x", offered, again)
			}
			tx = &np
			nilPayer = true
		}
		var d types.Transaction
		roundTrip(rt, "transaction", tx, &d)
		if d.Hash() != tx.Hash() {
			rt.Fatalf("tx hash changed by round trip: %s -> %s\n%s\n%s", tx.Hash().Hex(), d.Hash().Hex(), tx, &d)
		}
		if signers(&d) != signers(tx) {
			rt.Fatalf("recovered signers changed by round trip:\n%s\n%s", signers(tx), signers(&d))
		}
		if d.String() != tx.String() || d.GasUsed() != tx.GasUsed() {
			rt.Fatalf("tx fields changed by round trip:\n%s\n%s", tx, &d)
		}
		// JSON (RPC format) round trip; only transactions the JSON decoder accepts (version 1, 65 byte sigs) are compared
		js, err := json.Marshal(tx)
		if err != nil {
			rt.Fatalf("marshal json: %v", err)
		}
		var jd types.Transaction
		jsonOK := false
		if err := json.Unmarshal(js, &jd); err == nil && utf8.ValidString(tx.Message()) && utf8.ValidString(tx.ToName()) {
			jsonOK = true
			if jd.Hash() != tx.Hash() {
				rt.Fatalf("tx hash changed by JSON round trip: %s -> %s\njson: %s", tx.Hash().Hex(), jd.Hash().Hex(), js)
			}
			if signers(&jd) != signers(tx) {
				rt.Fatalf("signers changed by JSON round trip")
			}
		}
		nontrivial := tx.To() == nil || tx.Type() == 10 || len(tx.Data()) == 0 || tx.Amount().Sign() == 0 || nsig > 0
		cls := []string{fmt.Sprintf("type%d", min(int(tx.Type()), 11)), fmt.Sprintf("sigs%d", nsig)}
		if jsonOK {
			cls = append(cls, "json")
		}
		if nilPayer {
			cls = append(cls, "nil-gas-payer")
		}
		sim.Case("tx", sim.HashOf(fmt.Sprintf("%x", enc(rt, tx))), nontrivial, cls, func() interface{} { return tx.String() })
	})
}

// ---- change logs of every type, produced by the real account manager ---------------------------------------------

func genProfile(t *rapid.T) types.Profile {
	p := make(types.Profile)
	n := rapid.IntRange(0, 4).Draw(t, "nprofile")
	for i := 0; i < n; i++ {
		p[rapid.SampledFrom([]string{"isCandidate", "nodeID", "host", "port", "incomeAddress", "depositBalance", "introduction", "", "x"}).Draw(t, "pkey")] = genString(20).Draw(t, "pval")
	}
	return p
}

func genAsset(t *rapid.T) *types.Asset {
	return &types.Asset{
		Category:        rapid.Uint32Range(0, 4).Draw(t, "cat"),
		IsDivisible:     rapid.Bool().Draw(t, "div"),
		AssetCode:       genHash().Draw(t, "acode"),
		Decimal:         rapid.Uint32Range(0, 20).Draw(t, "dec"),
		TotalSupply:     genBig().Draw(t, "supply"),
		IsReplenishable: rapid.Bool().Draw(t, "repl"),
		Issuer:          genAddress().Draw(t, "issuer"),
		Profile:         genProfile(t),
	}
}

// applyOps runs generated mutations through SafeAccount setters so that the change logs have exactly the dynamic
// shapes the product creates.
func applyOps(t *rapid.T, am *account.Manager) []string {
	var kinds []string
	addrs := []common.Address{common.HexToAddress("0x0100000000000000000000000000000000000001"), common.HexToAddress("0x02"), genAddress().Draw(t, "acct")}
	n := rapid.IntRange(1, 12).Draw(t, "nops")
	assetCodes := map[common.Address][]common.Hash{}
	for i := 0; i < n; i++ {
		addr := addrs[rapid.IntRange(0, len(addrs)-1).Draw(t, "which")]
		acc := am.GetAccount(addr)
		op := rapid.IntRange(0, 14).Draw(t, "op")
		switch op {
		case 0:
			acc.SetBalance(genBig().Draw(t, "balance"))
			kinds = append(kinds, "balance")
		case 1:
			_ = acc.SetStorageState(genHash().Draw(t, "skey"), genBytes(40).Draw(t, "sval"))
			kinds = append(kinds, "storage")
		case 2:
			code := genHash().Draw(t, "code")
			var asset *types.Asset
			if rapid.IntRange(0, 4).Draw(t, "nilasset") != 0 {
				asset = genAsset(t)
				assetCodes[addr] = append(assetCodes[addr], code)
			} else {
				// callers only touch the state / supply of assets which exist: forget a deleted one
				kept := assetCodes[addr][:0]
				for _, c := range assetCodes[addr] {
					if c != code {
						kept = append(kept, c)
					}
				}
				assetCodes[addr] = kept
			}
			_ = acc.SetAssetCode(code, asset)
			kinds = append(kinds, "assetCode")
		case 3:
			if len(assetCodes[addr]) == 0 {
				continue
			}
			_ = acc.SetAssetCodeState(assetCodes[addr][0], genString(10).Draw(t, "askey"), genString(20).Draw(t, "asval"))
			kinds = append(kinds, "assetCodeState")
		case 4:
			if len(assetCodes[addr]) == 0 {
				continue
			}
			_ = acc.SetAssetCodeTotalSupply(assetCodes[addr][0], genBig().Draw(t, "total"))
			kinds = append(kinds, "totalSupply")
		case 5:
			_ = acc.SetAssetIdState(genHash().Draw(t, "aid"), genString(30).Draw(t, "meta"))
			kinds = append(kinds, "assetId")
		case 6:
			var eq *types.AssetEquity
			if rapid.IntRange(0, 4).Draw(t, "nileq") != 0 {
				eq = &types.AssetEquity{AssetCode: genHash().Draw(t, "eqcode"), AssetId: genHash().Draw(t, "eqid"), Equity: genBig().Draw(t, "equity")}
			}
			_ = acc.SetEquityState(genHash().Draw(t, "eid"), eq)
			kinds = append(kinds, "equity")
		case 7:
			acc.SetCandidate(genProfile(t))
			kinds = append(kinds, "candidate")
		case 8:
			acc.SetCandidateState(genString(8).Draw(t, "ckey"), genString(20).Draw(t, "cval"))
			kinds = append(kinds, "candidateState")
		case 9:
			acc.SetCode(types.Code(genBytes(60).Draw(t, "ccode")))
			kinds = append(kinds, "code")
		case 10:
			ntop := rapid.IntRange(0, 4).Draw(t, "ntop")
			ev := &types.Event{Address: addr, Data: genBytes(40).Draw(t, "evdata"), TxHash: genHash().Draw(t, "evtx")}
			for k := 0; k < ntop; k++ {
				ev.Topics = append(ev.Topics, genHash().Draw(t, "topic"))
			}
			acc.PushEvent(ev)
			kinds = append(kinds, "event")
		case 11:
			acc.SetSuicide(true)
			delete(assetCodes, addr) // self-destruct drops the account's assets
			kinds = append(kinds, "suicide")
		case 12:
			acc.SetVoteFor(genAddress().Draw(t, "votefor"))
			kinds = append(kinds, "voteFor")
		case 13:
			acc.SetVotes(genBig().Draw(t, "votes"))
			kinds = append(kinds, "votes")
		case 14:
			ns := rapid.IntRange(0, 3).Draw(t, "nsigners")
			var s types.Signers
			for k := 0; k < ns; k++ {
				s = append(s, types.SignAccount{Address: genAddress().Draw(t, "saddr"), Weight: rapid.Uint8().Draw(t, "weight")})
			}
			_ = acc.SetSingers(s)
			kinds = append(kinds, "signers")
		}
	}
	return kinds
}

func checkLog(rt fataler, l *types.ChangeLog) {
	var d types.ChangeLog
	roundTrip(rt, "change log "+l.LogType.String(), l, &d)
	if d.Hash() != l.Hash() {
		rt.Fatalf("change log hash changed by round trip:\n%s\n%s", l, &d)
	}
	if d.LogType != l.LogType || d.Address != l.Address || d.Version != l.Version {
		rt.Fatalf("change log head changed: %s vs %s", l, &d)
	}
	// the decoded value must be an equal value: same dynamic type and same content of NewVal and Extra
	if render(l.NewVal) != render(d.NewVal) || render(l.Extra) != render(d.Extra) {
		rt.Fatalf("change log %s: value changed by round trip:\n NewVal %s\n     -> %s\n Extra  %s\n     -> %s", l.LogType, render(l.NewVal), render(d.NewVal), render(l.Extra), render(d.Extra))
	}
}

// render writes a value of a change log out with its dynamic type, independent of pointer identity and map order.
func render(v interface{}) string {
	switch x := v.(type) {
	case nil:
		return "nil"
	case big.Int:
		return "big.Int:" + x.String()
	case *big.Int:
		return "*big.Int:" + x.String()
	case []byte:
		return fmt.Sprintf("[]byte:%x", x)
	case types.Code:
		return fmt.Sprintf("Code:%x", []byte(x))
	case string:
		return fmt.Sprintf("string:%q", x)
	case common.Hash:
		return "Hash:" + x.Hex()
	case common.Address:
		return "Address:" + x.Hex()
	case *types.Profile:
		if x == nil {
			return "*Profile:nil"
		}
		return "*Profile:" + renderProfile(*x)
	case types.Profile:
		return "Profile:" + renderProfile(x)
	case *types.Asset:
		if x == nil {
			return "*Asset:nil"
		}
		return fmt.Sprintf("*Asset:{%d %v %s %d %s %v %s %s}", x.Category, x.IsDivisible, x.AssetCode.Hex(), x.Decimal, x.TotalSupply, x.IsReplenishable, x.Issuer.Hex(), renderProfile(x.Profile))
	case *types.AssetEquity:
		if x == nil {
			return "*AssetEquity:nil"
		}
		return fmt.Sprintf("*AssetEquity:{%s %s %s}", x.AssetCode.Hex(), x.AssetId.Hex(), x.Equity)
	case types.Signers:
		return fmt.Sprintf("Signers:%v", []types.SignAccount(x))
	case *types.Event:
		return fmt.Sprintf("*Event:{%s %v %x}", x.Address.Hex(), x.Topics, x.Data)
	case *account.ProfileChangeLogExtra:
		return fmt.Sprintf("*ProfileChangeLogExtra:{%s %q}", x.UUID.Hex(), x.Key)
	default:
		return fmt.Sprintf("%T:%v", v, v)
	}
}

func renderProfile(p types.Profile) string {
	keys := make([]string, 0, len(p))
	for k := range p {
		keys = append(keys, k)
	}
	sort.Strings(keys)
	var sb strings.Builder
	for _, k := range keys {
		fmt.Fprintf(&sb, "%q=%q,", k, p[k])
	}
	return "{" + sb.String() + "}"
}

func TestC14ChangeLog(t *testing.T) {
	rapid.Check(t, func(rt *rapid.T) {
		am := account.NewManager(common.Hash{}, sharedDB)
		kinds := applyOps(rt, am)
		raw := am.GetChangeLogs()
		for _, l := range raw {
			checkLog(rt, l)
		}
		finalised := false
		if rapid.Bool().Draw(rt, "finalise") {
			am.MergeChangeLogs()
			if err := am.Finalise(); err != nil {
				rt.Fatalf("finalise: %v", err)
			}
			finalised = true
			for _, l := range am.GetChangeLogs() {
				checkLog(rt, l)
			}
		}
		logs := am.GetChangeLogs()
		// a whole block carrying these logs
		blk := &types.Block{Header: genHeader().Draw(rt, "bheader"), ChangeLogs: logs, DeputyNodes: genDeputyNodes().Draw(rt, "deputies")}
		ntx := rapid.IntRange(0, 3).Draw(rt, "ntx")
		for i := 0; i < ntx; i++ {
			blk.Txs = append(blk.Txs, genTx(0).Draw(rt, "btx"))
		}
		nconf := rapid.IntRange(0, 3).Draw(rt, "nconf")
		for i := 0; i < nconf; i++ {
			blk.Confirms = append(blk.Confirms, types.BytesToSignData(genSig().Draw(rt, "conf")))
		}
		var db types.Block
		roundTrip(rt, "block", blk, &db)
		if db.Hash() != blk.Hash() || db.Txs.MerkleRootSha() != blk.Txs.MerkleRootSha() || db.ChangeLogs.MerkleRootSha() != blk.ChangeLogs.MerkleRootSha() ||
			db.DeputyNodes.MerkleRootSha() != blk.DeputyNodes.MerkleRootSha() || len(db.Confirms) != len(blk.Confirms) {
			rt.Fatalf("block changed by round trip")
		}
		for i := range blk.Confirms {
			if db.Confirms[i] != blk.Confirms[i] {
				rt.Fatalf("confirm %d changed", i)
			}
		}
		cls := append([]string{}, kinds...)
		if finalised {
			cls = append(cls, "finalised")
		}
		sim.Case("changelog", sim.HashOf(fmt.Sprintf("%x", enc(rt, blk))), len(logs) > 0, cls, func() interface{} {
			var s []string
			for _, l := range logs {
				s = append(s, l.String())
			}
			return s
		})
	})
}

func TestC14AccountAndMessages(t *testing.T) {
	rapid.Check(t, func(rt *rapid.T) {
		a := &types.AccountData{
			Address:       genAddress().Draw(rt, "address"),
			Balance:       genBig().Draw(rt, "balance"),
			CodeHash:      genHash().Draw(rt, "codehash"),
			StorageRoot:   genHash().Draw(rt, "sroot"),
			AssetCodeRoot: genHash().Draw(rt, "acroot"),
			AssetIdRoot:   genHash().Draw(rt, "airoot"),
			EquityRoot:    genHash().Draw(rt, "eroot"),
			VoteFor:       genAddress().Draw(rt, "votefor"),
			NewestRecords: map[types.ChangeLogType]types.VersionRecord{},
		}
		a.Candidate.Votes = genBig().Draw(rt, "votes")
		a.Candidate.Profile = genProfile(rt)
		nrec := rapid.IntRange(0, 6).Draw(rt, "nrec")
		for i := 0; i < nrec; i++ {
			a.NewestRecords[types.ChangeLogType(rapid.Uint32Range(1, 19).Draw(rt, "lt"))] = types.VersionRecord{Version: rapid.Uint32().Draw(rt, "ver"), Height: rapid.Uint32().Draw(rt, "h")}
		}
		ns := rapid.IntRange(0, 3).Draw(rt, "nsigners")
		for k := 0; k < ns; k++ {
			a.Signers = append(a.Signers, types.SignAccount{Address: genAddress().Draw(rt, "saddr"), Weight: rapid.Uint8().Draw(rt, "weight")})
		}
		b := enc(rt, a)
		var d types.AccountData
		if err := rlp.DecodeBytes(b, &d); err != nil {
			rt.Fatalf("account data: decoding own encoding failed: %v", err)
		}
		if d.Address != a.Address || d.Balance.Cmp(a.Balance) != 0 || d.CodeHash != a.CodeHash || d.StorageRoot != a.StorageRoot || d.AssetCodeRoot != a.AssetCodeRoot ||
			d.AssetIdRoot != a.AssetIdRoot || d.EquityRoot != a.EquityRoot || d.VoteFor != a.VoteFor || d.Candidate.Votes.Cmp(a.Candidate.Votes) != 0 ||
			!reflect.DeepEqual(map[string]string(d.Candidate.Profile), map[string]string(a.Candidate.Profile)) || !reflect.DeepEqual(d.NewestRecords, a.NewestRecords) ||
			len(d.Signers) != len(a.Signers) {
			rt.Fatalf("account data changed by round trip:\n%s\n%s", a, &d)
		}
		for i := range a.Signers {
			if a.Signers[i] != d.Signers[i] {
				rt.Fatalf("signers changed")
			}
		}

		// deputy nodes
		dn := genDeputyNodes().Draw(rt, "deputies")
		var dd types.DeputyNodes
		roundTrip(rt, "deputy nodes", dn, &dd)
		if dd.MerkleRootSha() != dn.MerkleRootSha() {
			rt.Fatalf("deputy nodes root changed")
		}

		// wire messages
		sig := types.BytesToSignData(genSig().Draw(rt, "sig"))
		bcd := &network.BlockConfirmData{Hash: genHash().Draw(rt, "bh"), Height: rapid.Uint32().Draw(rt, "bheight"), SignInfo: sig}
		var bcd2 network.BlockConfirmData
		roundTrip(rt, "BlockConfirmData", bcd, &bcd2)
		if *bcd != bcd2 {
			rt.Fatalf("BlockConfirmData changed")
		}
		bc := &network.BlockConfirms{Height: rapid.Uint32().Draw(rt, "ch"), Hash: genHash().Draw(rt, "chash")}
		for i := 0; i < rapid.IntRange(0, 3).Draw(rt, "npack"); i++ {
			bc.Pack = append(bc.Pack, types.BytesToSignData(genSig().Draw(rt, "packsig")))
		}
		var bc2 network.BlockConfirms
		roundTrip(rt, "BlockConfirms", bc, &bc2)
		if bc.Height != bc2.Height || bc.Hash != bc2.Hash || len(bc.Pack) != len(bc2.Pack) {
			rt.Fatalf("BlockConfirms changed")
		}
		hs := &network.ProtocolHandshake{ChainID: rapid.Uint16().Draw(rt, "cid"), GenesisHash: genHash().Draw(rt, "gh"), NodeVersion: rapid.Uint32().Draw(rt, "nv"),
			LatestStatus: network.LatestStatus{CurHeight: rapid.Uint32().Draw(rt, "curh"), CurHash: genHash().Draw(rt, "curhash"), StaHeight: rapid.Uint32().Draw(rt, "stah"), StaHash: genHash().Draw(rt, "stahash")}}
		var hs2 network.ProtocolHandshake
		roundTrip(rt, "ProtocolHandshake", hs, &hs2)
		if *hs != hs2 {
			rt.Fatalf("handshake changed")
		}
		gb := &network.GetBlocksData{From: rapid.Uint32().Draw(rt, "from"), To: rapid.Uint32().Draw(rt, "to")}
		var gb2 network.GetBlocksData
		roundTrip(rt, "GetBlocksData", gb, &gb2)
		if *gb != gb2 {
			rt.Fatalf("GetBlocksData changed")
		}
		nontrivial := len(a.Candidate.Profile) == 0 || a.Balance.Sign() == 0 || len(a.NewestRecords) == 0 || len(a.Signers) == 0 || len(dn) == 0
		sim.Case("account+messages", sim.HashOf(fmt.Sprintf("%x", b)), nontrivial, nil, func() interface{} { return a.String() })
	})
}

func TestC14Address(t *testing.T) {
	rapid.Check(t, func(rt *rapid.T) {
		a := genAddress().Draw(rt, "address")
		s := a.String()
		back, err := common.StringToAddress(s)
		if err != nil {
			rt.Fatalf("address %s -> %q does not decode: %v", a.Hex(), s, err)
		}
		if back != a {
			rt.Fatalf("address %s -> %q -> %s", a.Hex(), s, back.Hex())
		}
		lower, err := common.StringToAddress(strings.ToLower(s))
		if err != nil || lower != a {
			rt.Fatalf("lower case spelling %q decodes to %s, %v (want %s)", strings.ToLower(s), lower.Hex(), err, a.Hex())
		}
		// the textual form used in JSON
		js, err := json.Marshal(a)
		if err != nil {
			rt.Fatalf("marshal: %v", err)
		}
		var ja common.Address
		if err := json.Unmarshal(js, &ja); err != nil || ja != a {
			rt.Fatalf("JSON address %s -> %s -> %s (%v)", a.Hex(), js, ja.Hex(), err)
		}
		lead := 0
		for lead < 20 && a[lead] == 0 {
			lead++
		}
		sim.Case("address", a.Hex(), lead > 0 || a[19] == 0, []string{fmt.Sprintf("leadzeros%d", min(lead, 3))}, func() interface{} { return map[string]string{"hex": a.Hex(), "text": s} })
	})
}

var _ = big.NewInt
