// Package c14 — encodings round-trip and are canonical.
package c14

import (
	"math/big"

	"github.com/LemoFoundationLtd/lemochain-core/chain/types"
	"github.com/LemoFoundationLtd/lemochain-core/common"
	"github.com/LemoFoundationLtd/lemochain-core/common/merkle"
	"pgregory.net/rapid"
)

// ---- value generators -------------------------------------------------------------------------------------------

func genBytes(max int) *rapid.Generator[[]byte] {
	return rapid.Custom(func(t *rapid.T) []byte {
		switch rapid.IntRange(0, 6).Draw(t, "bkind") {
		case 6: // lengths around the short/long form boundary of the codec
			n := rapid.SampledFrom([]int{54, 55, 56, 57, 255, 256}).Draw(t, "boundarylen")
			b := make([]byte, n)
			b[0] = rapid.ByteRange(1, 255).Draw(t, "firstbyte")
			b[n-1] = rapid.Byte().Draw(t, "lastbyte")
			return b
		case 0:
			return nil
		case 1:
			return []byte{}
		case 2:
			return []byte{rapid.Byte().Draw(t, "single")}
		case 3:
			return make([]byte, rapid.IntRange(1, 60).Draw(t, "zeros"))
		default:
			return rapid.SliceOfN(rapid.Byte(), 0, max).Draw(t, "bytes")
		}
	})
}

func genHash() *rapid.Generator[common.Hash] {
	return rapid.Custom(func(t *rapid.T) common.Hash {
		switch rapid.IntRange(0, 5).Draw(t, "hkind") {
		case 0:
			return common.Hash{}
		case 1:
			return merkle.EmptyTrieHash
		case 2: // leading zeros
			var h common.Hash
			h[31] = rapid.Byte().Draw(t, "last")
			return h
		case 3: // trailing zeros
			var h common.Hash
			h[0] = rapid.Byte().Draw(t, "first")
			return h
		default:
			var h common.Hash
			copy(h[:], rapid.SliceOfN(rapid.Byte(), 32, 32).Draw(t, "hash"))
			return h
		}
	})
}

func genAddress() *rapid.Generator[common.Address] {
	return rapid.Custom(func(t *rapid.T) common.Address {
		var a common.Address
		switch rapid.IntRange(0, 6).Draw(t, "akind") {
		case 0:
		case 1:
			a[19] = rapid.Byte().Draw(t, "last")
		case 2:
			a[0] = rapid.Byte().Draw(t, "first")
		case 3:
			for i := range a {
				a[i] = 0xff
			}
		case 4: // k leading zero bytes
			k := rapid.IntRange(1, 19).Draw(t, "lead")
			copy(a[k:], rapid.SliceOfN(rapid.Byte(), 20-k, 20-k).Draw(t, "tail"))
		default:
			copy(a[:], rapid.SliceOfN(rapid.Byte(), 20, 20).Draw(t, "addr"))
		}
		return a
	})
}

func genBig() *rapid.Generator[*big.Int] {
	return rapid.Custom(func(t *rapid.T) *big.Int {
		switch rapid.IntRange(0, 5).Draw(t, "bigkind") {
		case 0:
			return new(big.Int)
		case 1:
			return big.NewInt(int64(rapid.IntRange(1, 127).Draw(t, "small")))
		case 2:
			return big.NewInt(int64(rapid.IntRange(128, 1<<20).Draw(t, "mid")))
		case 3:
			return new(big.Int).Lsh(big.NewInt(1), uint(rapid.IntRange(8, 255).Draw(t, "pow")))
		default:
			return new(big.Int).SetBytes(rapid.SliceOfN(rapid.Byte(), 1, 32).Draw(t, "bigbytes"))
		}
	})
}

func genString(max int) *rapid.Generator[string] {
	return rapid.Custom(func(t *rapid.T) string {
		switch rapid.IntRange(0, 3).Draw(t, "skind") {
		case 0:
			return ""
		case 1:
			return rapid.StringMatching(`[a-zA-Z0-9_.\-]{1,20}`).Draw(t, "name")
		case 2:
			return string(rapid.SliceOfN(rapid.Byte(), 1, max).Draw(t, "rawstr"))
		default:
			return rapid.StringN(0, max, -1).Draw(t, "str")
		}
	})
}

func genSig() *rapid.Generator[[]byte] {
	return rapid.Custom(func(t *rapid.T) []byte {
		return rapid.SliceOfN(rapid.Byte(), 65, 65).Draw(t, "sig")
	})
}

func genHeader() *rapid.Generator[*types.Header] {
	return rapid.Custom(func(t *rapid.T) *types.Header {
		h := &types.Header{
			ParentHash:   genHash().Draw(t, "parent"),
			MinerAddress: genAddress().Draw(t, "miner"),
			VersionRoot:  genHash().Draw(t, "vroot"),
			TxRoot:       genHash().Draw(t, "txroot"),
			LogRoot:      genHash().Draw(t, "logroot"),
			Height:       rapid.Uint32().Draw(t, "height"),
			GasLimit:     rapid.Uint64().Draw(t, "gaslimit"),
			GasUsed:      rapid.Uint64().Draw(t, "gasused"),
			Time:         rapid.Uint32().Draw(t, "time"),
			Extra:        genString(300).Draw(t, "extra"),
		}
		switch rapid.IntRange(0, 2).Draw(t, "signkind") {
		case 0:
		case 1:
			h.SignData = genSig().Draw(t, "signdata")
		case 2:
			h.SignData = genBytes(70).Draw(t, "signbytes")
		}
		switch rapid.IntRange(0, 2).Draw(t, "drkind") {
		case 0:
		case 1:
			dr := genHash().Draw(t, "deputyroot")
			h.DeputyRoot = dr[:]
		case 2:
			h.DeputyRoot = genBytes(40).Draw(t, "deputyrootbytes")
		}
		return h
	})
}

// genTx generates a transaction of any type with any field shape. depth 0 = may be a box of sub transactions.
func genTx(depth int) *rapid.Generator[*types.Transaction] {
	return rapid.Custom(func(t *rapid.T) *types.Transaction {
		from := genAddress().Draw(t, "from")
		to := genAddress().Draw(t, "to")
		txType := uint16(rapid.IntRange(0, 10).Draw(t, "type"))
		if rapid.IntRange(0, 19).Draw(t, "oddtype") == 0 {
			txType = rapid.Uint16().Draw(t, "rawtype")
		}
		amount := genBig().Draw(t, "amount")
		gasLimit := rapid.Uint64().Draw(t, "gasLimit")
		gasPrice := genBig().Draw(t, "gasPrice")
		data := genBytes(100).Draw(t, "data")
		exp := rapid.Uint64().Draw(t, "exp")
		toName := genString(30).Draw(t, "toName")
		msg := genString(60).Draw(t, "msg")
		chainID := rapid.Uint16().Draw(t, "chainID")
		if txType == 10 && depth == 0 {
			n := rapid.IntRange(0, 3).Draw(t, "nsub")
			subs := make(types.Transactions, 0, n)
			for i := 0; i < n; i++ {
				subs = append(subs, genTx(1).Draw(t, "sub"))
			}
			var err error
			data, err = types.MarshalBoxData(subs)
			if err != nil {
				t.Fatalf("marshal box: %v", err)
			}
		}
		var tx *types.Transaction
		switch rapid.IntRange(0, 3).Draw(t, "ctor") {
		case 0:
			tx = types.NewTransaction(from, to, amount, gasLimit, gasPrice, data, txType, chainID, exp, toName, msg)
		case 1:
			tx = types.NoReceiverTransaction(from, amount, gasLimit, gasPrice, data, txType, chainID, exp, toName, msg)
		case 2:
			payer := genAddress().Draw(t, "payer")
			tx = types.NewReimbursementTransaction(from, to, payer, amount, data, txType, chainID, exp, toName, msg)
			tx = types.GasPayerSignatureTx(tx, gasPrice, gasLimit)
		default:
			payer := genAddress().Draw(t, "payer")
			tx = types.NewReimbursementContractCreation(from, payer, amount, data, txType, chainID, exp, toName, msg)
			tx = types.GasPayerSignatureTx(tx, gasPrice, gasLimit)
		}
		tx.SetGasUsed(rapid.Uint64().Draw(t, "gasUsed"))
		return tx
	})
}

func genDeputyNodes() *rapid.Generator[types.DeputyNodes] {
	return rapid.Custom(func(t *rapid.T) types.DeputyNodes {
		n := rapid.IntRange(0, 5).Draw(t, "ndeputies")
		res := make(types.DeputyNodes, 0, n)
		for i := 0; i < n; i++ {
			res = append(res, &types.DeputyNode{
				MinerAddress: genAddress().Draw(t, "dminer"),
				NodeID:       rapid.SliceOfN(rapid.Byte(), 64, 64).Draw(t, "nodeid"),
				Rank:         rapid.Uint32().Draw(t, "rank"),
				Votes:        genBig().Draw(t, "votes"),
			})
		}
		return res
	})
}
