package c14

import (
	"bytes"
	"fmt"
	"math/big"
	"testing"

	"verif/sim"

	"github.com/LemoFoundationLtd/lemochain-core/chain/types"
	"github.com/LemoFoundationLtd/lemochain-core/common"
	"github.com/LemoFoundationLtd/lemochain-core/common/rlp"
	"github.com/LemoFoundationLtd/lemochain-core/network"
	"pgregory.net/rapid"
)

// ---- codec canonicity: decode ok  =>  encode(value) == input -----------------------------------------------------

type pair struct {
	A uint64
	B []byte
}

type nested struct {
	X uint32
	P pair
	L []uint16
	S string
}

// kinds lists the primitive / composite kinds the canonicity relation is checked for. Each entry decodes the byte
// string and, if that succeeds, re-encodes the value.
var kinds = []struct {
	name string
	fn   func(b []byte) ([]byte, error)
}{
	{"uint8", func(b []byte) ([]byte, error) { var v uint8; return re(b, &v) }},
	{"uint16", func(b []byte) ([]byte, error) { var v uint16; return re(b, &v) }},
	{"uint32", func(b []byte) ([]byte, error) { var v uint32; return re(b, &v) }},
	{"uint64", func(b []byte) ([]byte, error) { var v uint64; return re(b, &v) }},
	{"bool", func(b []byte) ([]byte, error) { var v bool; return re(b, &v) }},
	{"bigint", func(b []byte) ([]byte, error) { v := new(big.Int); return re(b, v) }},
	{"bytes", func(b []byte) ([]byte, error) { var v []byte; return re(b, &v) }},
	{"string", func(b []byte) ([]byte, error) { var v string; return re(b, &v) }},
	{"address", func(b []byte) ([]byte, error) { var v common.Address; return re(b, &v) }},
	{"hash", func(b []byte) ([]byte, error) { var v common.Hash; return re(b, &v) }},
	{"signdata", func(b []byte) ([]byte, error) { var v types.SignData; return re(b, &v) }},
	{"uint64list", func(b []byte) ([]byte, error) { var v []uint64; return re(b, &v) }},
	{"byteslist", func(b []byte) ([]byte, error) { var v [][]byte; return re(b, &v) }},
	{"pair", func(b []byte) ([]byte, error) { var v pair; return re(b, &v) }},
	{"nested", func(b []byte) ([]byte, error) { var v nested; return re(b, &v) }},
	{"rawvalue", func(b []byte) ([]byte, error) { var v rlp.RawValue; return re(b, &v) }},
}

func re(b []byte, into interface{}) ([]byte, error) {
	if err := rlp.DecodeBytes(b, into); err != nil {
		return nil, err
	}
	return rlp.EncodeToBytes(into)
}

// sampleValue encodes a random value of kind i (the source of mostly-valid inputs).
func sampleValue(t *rapid.T, i int) []byte {
	var v interface{}
	switch kinds[i].name {
	case "uint8":
		v = rapid.Uint8().Draw(t, "v")
	case "uint16":
		v = rapid.Uint16().Draw(t, "v")
	case "uint32":
		v = rapid.Uint32().Draw(t, "v")
	case "uint64":
		v = rapid.Uint64().Draw(t, "v")
	case "bool":
		v = rapid.Bool().Draw(t, "v")
	case "bigint":
		v = genBig().Draw(t, "v")
	case "bytes", "rawvalue":
		v = genBytes(70).Draw(t, "v")
	case "string":
		v = genString(70).Draw(t, "v")
	case "address":
		v = genAddress().Draw(t, "v")
	case "hash":
		v = genHash().Draw(t, "v")
	case "signdata":
		v = types.BytesToSignData(genSig().Draw(t, "v"))
	case "uint64list":
		v = rapid.SliceOfN(rapid.Uint64(), 0, 8).Draw(t, "v")
	case "byteslist":
		if rapid.IntRange(0, 3).Draw(t, "listboundary") == 0 {
			// list payload of exactly 54..57 bytes: the short/long list form boundary
			n := rapid.IntRange(52, 55).Draw(t, "payload")
			item := make([]byte, n)
			item[0] = 1
			v = [][]byte{item} // payload = n + 2 (0xb8 len) or n+1
		} else {
			v = rapid.SliceOfN(genBytes(10), 0, 6).Draw(t, "v")
		}
	case "pair":
		v = pair{rapid.Uint64().Draw(t, "a"), genBytes(60).Draw(t, "b")}
	case "nested":
		v = nested{rapid.Uint32().Draw(t, "x"), pair{rapid.Uint64().Draw(t, "a"), genBytes(20).Draw(t, "b")}, rapid.SliceOfN(rapid.Uint16(), 0, 5).Draw(t, "l"), genString(20).Draw(t, "s")}
	}
	b, err := rlp.EncodeToBytes(v)
	if err != nil {
		t.Fatalf("encode sample: %v", err)
	}
	return b
}

// uncanon applies one of the classic non-canonical rewritings to a valid encoding (or returns arbitrary bytes).
func uncanon(t *rapid.T, b []byte) ([]byte, string) {
	switch rapid.IntRange(0, 9).Draw(t, "mutation") {
	case 0:
		return b, "valid"
	case 1: // trailing bytes
		return append(append([]byte{}, b...), rapid.SliceOfN(rapid.Byte(), 1, 3).Draw(t, "trail")...), "trailing"
	case 2: // single byte < 0x80 written with a length prefix
		if len(b) == 1 && b[0] < 0x80 {
			return []byte{0x81, b[0]}, "prefixed-single"
		}
		return []byte{0x81, rapid.ByteRange(0, 0x7f).Draw(t, "sb")}, "prefixed-single"
	case 3: // integer / string with leading zero byte
		if len(b) >= 1 && b[0] >= 0x80 && b[0] < 0xb7 {
			n := int(b[0] - 0x80)
			out := append([]byte{0x80 + byte(n+1), 0x00}, b[1:]...)
			return out, "leading-zero"
		}
		return []byte{0x82, 0x00, rapid.Byte().Draw(t, "lz")}, "leading-zero"
	case 4: // short string in long form
		if len(b) >= 1 && b[0] >= 0x80 && b[0] <= 0xb7 {
			n := int(b[0] - 0x80)
			out := append([]byte{0xb8, byte(n)}, b[1:]...)
			return out, "long-form-string"
		}
		return []byte{0xb8, 0x01, 0x90}, "long-form-string"
	case 5: // short list in long form
		if len(b) >= 1 && b[0] >= 0xc0 && b[0] <= 0xf7 {
			n := int(b[0] - 0xc0)
			out := append([]byte{0xf8, byte(n)}, b[1:]...)
			return out, "long-form-list"
		}
		return []byte{0xf8, 0x00}, "long-form-list"
	case 6: // length with leading zero in long form
		if len(b) >= 2 && (b[0] == 0xb8 || b[0] == 0xf8) {
			out := append([]byte{b[0] + 1, 0x00, b[1]}, b[2:]...)
			return out, "length-leading-zero"
		}
		return []byte{0xb9, 0x00, 0x38}, "length-leading-zero"
	case 7: // truncate
		if len(b) > 1 {
			return b[:rapid.IntRange(0, len(b)-1).Draw(t, "cut")], "truncated"
		}
		return []byte{}, "truncated"
	case 8: // flip a byte
		out := append([]byte{}, b...)
		if len(out) > 0 {
			i := rapid.IntRange(0, len(out)-1).Draw(t, "pos")
			out[i] ^= byte(1 << uint(rapid.IntRange(0, 7).Draw(t, "bit")))
		}
		return out, "bitflip"
	default:
		return rapid.SliceOfN(rapid.Byte(), 0, 40).Draw(t, "arbitrary"), "arbitrary"
	}
}

func TestC14Canonical(t *testing.T) {
	rapid.Check(t, func(rt *rapid.T) {
		i := rapid.IntRange(0, len(kinds)-1).Draw(rt, "kind")
		src := sampleValue(rt, rapid.IntRange(0, len(kinds)-1).Draw(rt, "srckind"))
		if rapid.Bool().Draw(rt, "samekind") {
			src = sampleValue(rt, i)
		}
		in, mut := uncanon(rt, src)
		out, err := kinds[i].fn(in)
		accepted := err == nil
		if accepted && !bytes.Equal(out, in) {
			rt.Fatalf("kind %s accepts the non-canonical encoding %x (%s): its value encodes as %x — two byte strings for one value", kinds[i].name, in, mut, out)
		}
		sim.Case("canonical", sim.HashOf(kinds[i].name, fmt.Sprintf("%x", in)), accepted || mut != "arbitrary", []string{kinds[i].name, mut, fmt.Sprintf("accepted=%v", accepted)}, func() interface{} {
			return map[string]interface{}{"kind": kinds[i].name, "input": fmt.Sprintf("%x", in), "mutation": mut, "accepted": accepted}
		})
	})
}

// ---- robustness: every decoder returns a value or an error on arbitrary / damaged input, never panics -------------

var decoders = []struct {
	name string
	fn   func(b []byte) error
}{
	{"block", func(b []byte) error { var v types.Block; return rlp.DecodeBytes(b, &v) }},
	{"blocks", func(b []byte) error { var v types.Blocks; return rlp.DecodeBytes(b, &v) }},
	{"header", func(b []byte) error { var v types.Header; return rlp.DecodeBytes(b, &v) }},
	{"tx", func(b []byte) error {
		var v types.Transaction
		err := rlp.DecodeBytes(b, &v)
		if err == nil { // a decoded transaction must be usable
			_ = v.Hash()
			_ = v.String()
			_, _ = types.MakeSigner().GetSigners(&v)
			_ = v.VerifyTxBody(sim.ChainID, uint64(sim.T0), true)
		}
		return err
	}},
	{"txs", func(b []byte) error { var v types.Transactions; return rlp.DecodeBytes(b, &v) }},
	{"changelog", func(b []byte) error {
		var v types.ChangeLog
		err := rlp.DecodeBytes(b, &v)
		if err == nil {
			_ = v.Hash()
			_ = v.String()
		}
		return err
	}},
	{"account", func(b []byte) error { var v types.AccountData; return rlp.DecodeBytes(b, &v) }},
	{"deputies", func(b []byte) error { var v types.DeputyNodes; return rlp.DecodeBytes(b, &v) }},
	{"confirmdata", func(b []byte) error { var v network.BlockConfirmData; return rlp.DecodeBytes(b, &v) }},
	{"confirms", func(b []byte) error { var v network.BlockConfirms; return rlp.DecodeBytes(b, &v) }},
	{"handshake", func(b []byte) error { var v network.ProtocolHandshake; return rlp.DecodeBytes(b, &v) }},
	{"getblocks", func(b []byte) error { var v network.GetBlocksData; return rlp.DecodeBytes(b, &v) }},
	{"asset", func(b []byte) error { var v types.Asset; return rlp.DecodeBytes(b, &v) }},
	{"equity", func(b []byte) error { var v types.AssetEquity; return rlp.DecodeBytes(b, &v) }},
	{"interface", func(b []byte) error { var v interface{}; return rlp.DecodeBytes(b, &v) }},
	{"txjson", func(b []byte) error {
		var v types.Transaction
		err := v.UnmarshalJSON(b)
		if err == nil {
			_ = v.Hash()
		}
		return err
	}},
	{"boxjson", func(b []byte) error { _, err := types.GetBox(b); return err }},
}

func damage(t *rapid.T, b []byte) ([]byte, string) {
	switch rapid.IntRange(0, 5).Draw(t, "damage") {
	case 0:
		return b, "intact"
	case 1:
		if len(b) == 0 {
			return b, "intact"
		}
		return b[:rapid.IntRange(0, len(b)-1).Draw(t, "cut")], "truncated"
	case 2:
		out := append([]byte{}, b...)
		n := rapid.IntRange(1, 4).Draw(t, "nflips")
		for k := 0; k < n && len(out) > 0; k++ {
			out[rapid.IntRange(0, len(out)-1).Draw(t, "pos")] = rapid.Byte().Draw(t, "val")
		}
		return out, "bytes-replaced"
	case 3: // splice: insert a chunk of itself somewhere else
		if len(b) < 4 {
			return b, "intact"
		}
		i := rapid.IntRange(0, len(b)-2).Draw(t, "from")
		j := rapid.IntRange(i+1, len(b)).Draw(t, "to")
		k := rapid.IntRange(0, len(b)).Draw(t, "at")
		out := append([]byte{}, b[:k]...)
		out = append(out, b[i:j]...)
		out = append(out, b[k:]...)
		return out, "spliced"
	case 4: // huge declared lengths
		out := append([]byte{0xfb, 0xff, 0xff, 0xff, 0xff}, b...)
		return out, "huge-length"
	default:
		return rapid.SliceOfN(rapid.Byte(), 0, 200).Draw(t, "arbitrary"), "arbitrary"
	}
}

func TestC14Robust(t *testing.T) {
	rapid.Check(t, func(rt *rapid.T) {
		var src []byte
		switch rapid.IntRange(0, 5).Draw(rt, "source") {
		case 0:
			src = enc(rt, genHeader().Draw(rt, "h"))
		case 1:
			src = enc(rt, genTx(0).Draw(rt, "tx"))
		case 2:
			blk := &types.Block{Header: genHeader().Draw(rt, "bh"), DeputyNodes: genDeputyNodes().Draw(rt, "dn")}
			for i := 0; i < rapid.IntRange(0, 2).Draw(rt, "ntx"); i++ {
				blk.Txs = append(blk.Txs, genTx(0).Draw(rt, "btx"))
			}
			blk.ChangeLogs = append(blk.ChangeLogs, &types.ChangeLog{LogType: 1, Address: genAddress().Draw(rt, "la"), Version: 1, NewVal: *genBig().Draw(rt, "lv")})
			src = enc(rt, blk)
		case 3:
			js, _ := genTx(0).Draw(rt, "jtx").MarshalJSON()
			src = js
		case 4:
			src = enc(rt, &types.ChangeLog{LogType: types.ChangeLogType(rapid.Uint32Range(0, 21).Draw(rt, "lt")), Address: genAddress().Draw(rt, "la"), Version: rapid.Uint32().Draw(rt, "ver"), NewVal: genBytes(30).Draw(rt, "nv"), Extra: genBytes(33).Draw(rt, "ex")})
		default:
			src = rapid.SliceOfN(rapid.Byte(), 0, 100).Draw(rt, "raw")
		}
		in, how := damage(rt, src)
		okCount := 0
		for _, d := range decoders {
			func() {
				defer func() {
					if r := recover(); r != nil {
						rt.Fatalf("decoder %s panicked on %x (%s): %v", d.name, in, how, r)
					}
				}()
				if d.fn(in) == nil {
					okCount++
				}
			}()
		}
		sim.Case("robust", sim.HashOf(fmt.Sprintf("%x", in)), how != "intact" && len(in) > 0, []string{how, fmt.Sprintf("decoders-accepting=%d", min(okCount, 3))}, func() interface{} {
			return map[string]interface{}{"input": fmt.Sprintf("%x", in), "damage": how, "decoders_accepting": okCount}
		})
	})
}

// ---- native fuzz targets (thorough tier) -----------------------------------------------------------------------

func FuzzDecoders(f *testing.F) {
	f.Add([]byte{0xc0})
	f.Add([]byte{0xf8, 0x00})
	f.Add([]byte{0xfb, 0xff, 0xff, 0xff, 0xff})
	f.Add([]byte{0x81, 0x00})
	hdr, _ := rlp.EncodeToBytes(&types.Header{Height: 1, SignData: make([]byte, 65)})
	f.Add(hdr)
	tx := types.NewTransaction(common.HexToAddress("0x1"), common.HexToAddress("0x2"), big.NewInt(1), 21000, big.NewInt(1), nil, 0, 200, 1600000000, "", "")
	txb, _ := rlp.EncodeToBytes(tx)
	f.Add(txb)
	blk, _ := rlp.EncodeToBytes(&types.Block{Header: &types.Header{Height: 1}, Txs: types.Transactions{tx}})
	f.Add(blk)
	js, _ := tx.MarshalJSON()
	f.Add(js)
	f.Fuzz(func(t *testing.T, in []byte) {
		for _, d := range decoders {
			_ = d.fn(in)
		}
		for _, k := range kinds {
			out, err := k.fn(in)
			if err == nil && !bytes.Equal(out, in) {
				t.Fatalf("kind %s accepts non-canonical %x, canonical form %x", k.name, in, out)
			}
		}
	})
}
