// C08 — durability: after a crash at any write the store performs, the node restarts intact on its last stable block.
//
// A generated workload (blocks with transfers, contracts, candidates, assets; forks; confirm packets that make blocks
// stable at generated moments) is executed by a CHILD PROCESS which a crash-point hook kills (SIGKILL, optionally after
// writing only a prefix of the bytes: a torn write) at the k-th write of the store. A second child reopens the directory
// the way main/node does, reports what it finds, then receives the whole workload again. A third level injects a crash
// into that recovery itself. The parent compares the reports with a golden, crash-free execution.
package c08

import (
	"encoding/json"
	"fmt"
	"os"
	"os/exec"
	"path/filepath"
	"sort"
	"strings"
	"sync"
	"syscall"
	"testing"
	"time"

	"verif/sim"

	"github.com/LemoFoundationLtd/lemochain-core/chain/types"
	"github.com/LemoFoundationLtd/lemochain-core/common"
	"github.com/LemoFoundationLtd/lemochain-core/store"
	"github.com/LemoFoundationLtd/lemochain-core/store/crashpoint"
	"pgregory.net/rapid"
)

// Op is one step of the workload.
type Op struct {
	Kind    string `json:"kind"` // block | confirms
	Block   int    `json:"block"`
	Signers []int  `json:"signers"`
}

// Workload is what the children execute.
type Workload struct {
	Deputies int      `json:"deputies"`
	Blocks   [][]byte `json:"blocks"` // wire bytes
	Ops      []Op     `json:"ops"`
	Addrs    []string `json:"addrs"`
	Keys     sim.Keys `json:"keys"`
	Codes    []string `json:"codes"` // contract addresses whose code must be readable
}

// Report is what a recovery child finds.
type Report struct {
	StableHeight uint32              `json:"stableHeight"`
	StableHash   string              `json:"stableHash"`
	ByHeight     []string            `json:"byHeight"` // hashes for 0..stable as served by height
	MissingHash  []string            `json:"missingHash"`
	Dump         map[string][]string `json:"dump"` // accounts as of the stable block
	Top          string              `json:"top"`
	Problems     []string            `json:"problems"`
	FinalCurrent string              `json:"finalCurrent"`
	FinalStable  string              `json:"finalStable"`
	Verdicts     []string            `json:"verdicts"`
	Hits         int                 `json:"hits"`
	PerClass     map[string]int      `json:"perClass"`
}

// classOf groups the crash points: wal = the write-ahead file, data = bitcask data files, ctx = the candidate index file, ldb = LevelDB
func classOf(site, file string) string {
	switch {
	case strings.HasPrefix(site, "context"):
		return "ctx"
	case strings.HasPrefix(site, "leveldb"):
		return "ldb"
	case filepath.Base(file) == "tmp.data":
		return "wal"
	}
	return "data"
}

func TestMain(m *testing.M) {
	sim.Quiet()
	if os.Getenv("VERIF_C08_ROLE") != "" {
		child()
		return
	}
	code := m.Run()
	os.RemoveAll(sim.TmpRoot())
	os.Exit(code)
}

func world(d int) *sim.World { return sim.NewWorld("w", d, len(sim.Funding)) }

func mustRead(path string, v interface{}) {
	buf, err := os.ReadFile(path)
	if err != nil {
		panic(err)
	}
	if err := json.Unmarshal(buf, v); err != nil {
		panic(err)
	}
}

func addrsOf(w *Workload) []common.Address {
	var res []common.Address
	for _, a := range w.Addrs {
		res = append(res, common.HexToAddress(a))
	}
	return res
}

func renderTop(n *sim.Node, hash common.Hash) string {
	var parts []string
	for _, c := range n.BC.GetCandidatesTop(hash) {
		parts = append(parts, fmt.Sprintf("%s:%v", c.GetAddress().Hex()[36:], c.GetTotal()))
	}
	return strings.Join(parts, " ")
}

func dumpAt(n *sim.Node, w *Workload, hash common.Hash) map[string][]string {
	view := n.View(hash)
	res := map[string][]string{}
	for a, d := range sim.DumpState(view, addrsOf(w), &w.Keys, sim.DumpOptions{Versions: true, Roots: true}) {
		res[a.Hex()] = d
	}
	for _, c := range w.Codes {
		code, err := view.GetAccount(common.HexToAddress(c)).GetCode()
		res[c] = append(res[c], fmt.Sprintf("code-bytes=%d err=%v", len(code), err))
	}
	return res
}

// apply executes one op; returns a verdict string.
func apply(n *sim.Node, w *Workload, blocks []*types.Block, op Op) string {
	switch op.Kind {
	case "block":
		err := n.BC.InsertBlock(sim.DecodeBlock(w.Blocks[op.Block]))
		if err == nil {
			return "ok"
		}
		return "refused"
	default:
		b := blocks[op.Block]
		var sigs []types.SignData
		wd := world(w.Deputies)
		for _, s := range op.Signers {
			sigs = append(sigs, sim.ConfirmAs(b, wd.Deputies[s]))
		}
		n.BC.InsertConfirms(b.Height(), b.Hash(), sigs)
		return "-"
	}
}

// child is the body of the child processes.
func child() {
	role := os.Getenv("VERIF_C08_ROLE")
	dir := os.Getenv("VERIF_C08_DIR")
	var w Workload
	mustRead(os.Getenv("VERIF_C08_WORKLOAD"), &w)
	crashAt := 0
	fmt.Sscan(os.Getenv("VERIF_C08_CRASH_AT"), &crashAt)
	mode := os.Getenv("VERIF_C08_MODE") // clean | torn1 | tornhalf | tornlast
	hits := 0
	perClass := map[string]int{}
	var hmu sync.Mutex
	armed := os.Getenv("VERIF_C08_AFTER_SETUP") == ""
	crashpoint.Handler = func(site, file string, size int) int {
		if !armed {
			return -1
		}
		hmu.Lock()
		defer hmu.Unlock()
		cls := classOf(site, file)
		perClass[cls]++
		if want := os.Getenv("VERIF_C08_CLASS"); want != "" && want != "all" && want != cls {
			return -1
		}
		hits++
		if crashAt > 0 && hits == crashAt {
			if tr := os.Getenv("VERIF_C08_TRACE"); tr != "" {
				os.WriteFile(tr, []byte(fmt.Sprintf("%s %s size=%d mode=%s", site, filepath.Base(file), size, mode)), 0644)
			}
			if size == 0 {
				return 0
			}
			switch mode {
			case "torn1":
				return 1
			case "tornhalf":
				return size / 2
			case "tornlast":
				return size - 1
			}
			return 0
		}
		return -1
	}
	if role == "dumpwal" {
		dumpWal(filepath.Join(dir, "tmp.data"))
		os.Exit(0)
	}
	sim.ResetGlobals()
	wd := world(w.Deputies)
	blocks := make([]*types.Block, len(w.Blocks))
	for i, wire := range w.Blocks {
		blocks[i] = sim.DecodeBlock(wire)
	}
	n := sim.NewNodeAt(wd, nil, 17, dir)
	armed = true
	rep := &Report{}
	if role == "recover" {
		st := n.Stable()
		rep.StableHeight, rep.StableHash = st.Height(), st.Hash().Hex()
		for h := uint32(0); h <= st.Height(); h++ {
			b := n.BC.GetBlockByHeight(h)
			if b == nil {
				_, rawErr := n.DB.GetBlockByHeight(h)
				pending := n.DB.Beansdb.VerifPending()
				n.Drain()
				again := n.BC.GetBlockByHeight(h)
				rep.ByHeight = append(rep.ByHeight, fmt.Sprintf("missing (store says: %v; %d writes pending; after the write queue drained: present=%v)", rawErr, pending, again != nil))
				continue
			}
			rep.ByHeight = append(rep.ByHeight, b.Hash().Hex())
			if n.BC.GetBlockByHash(b.Hash()) == nil {
				rep.MissingHash = append(rep.MissingHash, b.Hash().Hex())
			}
		}
		rep.Dump = dumpAt(n, &w, st.Hash())
		rep.Top = renderTop(n, st.Hash())
	}
	journal, _ := os.OpenFile(os.Getenv("VERIF_C08_JOURNAL"), os.O_CREATE|os.O_WRONLY|os.O_APPEND, 0644)
	for i, op := range w.Ops {
		v := apply(n, &w, blocks, op)
		// the asset indexes of a block are written by the background writer; a block that uses them must not overtake it (the
		// precondition every check of this framework gives the node; not a matter of durability)
		n.Drain()
		rep.Verdicts = append(rep.Verdicts, v)
		if journal != nil {
			fmt.Fprintf(journal, "op %d done stable %d\n", i, n.Stable().Height())
			journal.Sync()
		}
	}
	rep.FinalCurrent, rep.FinalStable = n.Current().Hash().Hex(), n.Stable().Hash().Hex()
	n.Close()
	rep.Hits = hits
	rep.PerClass = perClass
	buf, _ := json.Marshal(rep)
	os.WriteFile(os.Getenv("VERIF_C08_REPORT"), buf, 0644)
	os.Exit(0)
}

type childResult struct {
	exit     int
	killed   bool
	output   string
	report   *Report
	lastDone int // stable height after the last completed op (journal), -1: none
	trace    string
}

var crashClass = "all"

func runChild(role, dir, wlPath string, crashAt int, mode string, scratch string, tag string) childResult {
	bin := os.Getenv("VERIF_BIN")
	if bin == "" {
		bin = os.Args[0]
	}
	report := filepath.Join(scratch, tag+".report.json")
	journal := filepath.Join(scratch, tag+".journal")
	trace := filepath.Join(scratch, tag+".trace")
	os.Remove(report)
	os.Remove(journal)
	os.Remove(trace)
	cmd := exec.Command(bin, "-test.run", "^$")
	cmd.Env = append(os.Environ(), "VERIF_C08_ROLE="+role, "VERIF_C08_DIR="+dir, "VERIF_C08_WORKLOAD="+wlPath, fmt.Sprintf("VERIF_C08_CRASH_AT=%d", crashAt),
		"VERIF_C08_MODE="+mode, "VERIF_C08_CLASS="+crashClass, "VERIF_C08_REPORT="+report, "VERIF_C08_JOURNAL="+journal, "VERIF_C08_TRACE="+trace, "VERIF_STATS=")
	out, err := runWithTimeout(cmd, 120*time.Second)
	res := childResult{output: out, lastDone: -1}
	if err != nil {
		res.exit = -1
		if ee, ok := err.(*exec.ExitError); ok {
			res.exit = ee.ExitCode()
			if ws, ok := ee.Sys().(syscall.WaitStatus); ok && ws.Signaled() && ws.Signal() == syscall.SIGKILL {
				res.killed = true
			}
		}
	}
	if buf, err := os.ReadFile(report); err == nil {
		var r Report
		if json.Unmarshal(buf, &r) == nil {
			res.report = &r
		}
	}
	if buf, err := os.ReadFile(journal); err == nil {
		for _, l := range strings.Split(string(buf), "\n") {
			var i, st int
			if n, _ := fmt.Sscanf(l, "op %d done stable %d", &i, &st); n == 2 {
				res.lastDone = st
			}
		}
	}
	if buf, err := os.ReadFile(trace); err == nil {
		res.trace = string(buf)
	}
	return res
}

func runWithTimeout(cmd *exec.Cmd, limit time.Duration) (string, error) {
	var sb strings.Builder
	cmd.Stdout = &sb
	cmd.Stderr = &sb
	if err := cmd.Start(); err != nil {
		return "", err
	}
	done := make(chan error, 1)
	go func() { done <- cmd.Wait() }()
	select {
	case err := <-done:
		return sb.String(), err
	case <-time.After(limit):
		cmd.Process.Kill()
		<-done
		return sb.String() + "\n[harness: child timed out]", fmt.Errorf("timeout")
	}
}

// golden: what a node that never crashed has, per canonical block, and at the end of the workload.
type golden struct {
	byHeight []string                       // canonical hashes
	dump     map[string]map[string][]string // block hash -> dump as of that block
	top      map[string]string
	final    *Report
}

func tail(s string, n int) string {
	i := strings.Index(s, "panic:")
	if j := strings.Index(s, "fatal error:"); j >= 0 && (i < 0 || j < i) {
		i = j
	}
	if i >= 0 {
		s = s[i:]
		lines := strings.Split(s, "\n")
		if len(lines) > n {
			lines = lines[:n]
		}
		return strings.Join(lines, "\n")
	}
	lines := strings.Split(strings.TrimSpace(s), "\n")
	if len(lines) > n {
		lines = lines[len(lines)-n:]
	}
	return strings.Join(lines, "\n")
}

// compare checks a recovery report against the golden run. lastDone: stable height after the last completed op of the crashed run.
func compare(g *golden, r childResult, lastDone int, what string) string {
	if r.exit != 0 || r.report == nil {
		return fmt.Sprintf("%s: reopening the data directory failed (exit %d, killed=%v)\n%s", what, r.exit, r.killed, tail(r.output, 25))
	}
	rep := r.report
	if int(rep.StableHeight) < lastDone {
		return fmt.Sprintf("%s: the restarted node presents stable height %d, but the promotion of height %d had completed before the crash", what, rep.StableHeight, lastDone)
	}
	if int(rep.StableHeight) >= len(g.byHeight) || g.byHeight[rep.StableHeight] != rep.StableHash {
		return fmt.Sprintf("%s: the restarted node's stable block %d %s is not the block of that height", what, rep.StableHeight, rep.StableHash[:10])
	}
	for h, hash := range rep.ByHeight {
		if hash != g.byHeight[h] {
			return fmt.Sprintf("%s: block at height %d (stable is %d) reads %s, want %s", what, h, rep.StableHeight, hash, g.byHeight[h][:10])
		}
	}
	if len(rep.MissingHash) > 0 {
		return fmt.Sprintf("%s: blocks below the stable block are not readable by hash: %v", what, rep.MissingHash)
	}
	want := g.dump[rep.StableHash]
	var diffs []string
	for a, lines := range want {
		if strings.Join(lines, "|") != strings.Join(rep.Dump[a], "|") {
			diffs = append(diffs, fmt.Sprintf("account %s:\n      restarted: %v\n      never stopped: %v", a[:10], rep.Dump[a], lines))
		}
	}
	if len(diffs) > 0 {
		sort.Strings(diffs)
		return fmt.Sprintf("%s: account data as of the stable block %d differs\n    %s", what, rep.StableHeight, strings.Join(diffs, "\n    "))
	}
	if rep.Top != g.top[rep.StableHash] {
		return fmt.Sprintf("%s: candidate list of the stable block %d is [%s], a node that never stopped has [%s]", what, rep.StableHeight, rep.Top, g.top[rep.StableHash])
	}
	if rep.FinalCurrent != g.final.FinalCurrent || rep.FinalStable != g.final.FinalStable {
		return fmt.Sprintf("%s: after receiving the workload again the restarted node ends with current %s stable %s, a node that never stopped with current %s stable %s (verdicts %v)",
			what, rep.FinalCurrent[:10], rep.FinalStable[:10], g.final.FinalCurrent[:10], g.final.FinalStable[:10], rep.Verdicts)
	}
	return ""
}

// genWorkload mines the blocks and draws the op order.
func genWorkload(t *rapid.T) (*Workload, *golden) {
	d := rapid.IntRange(1, 3).Draw(t, "deputies")
	s := sim.NewScenario(d, sim.Weights{Transfer: 4, Contract: 3, Candidate: 2, Vote: 1, Asset: 3, Box: 1})
	defer s.Close()
	w := &Workload{Deputies: d}
	g := &golden{dump: map[string]map[string][]string{}, top: map[string]string{}}
	nb := rapid.IntRange(2, 5).Draw(t, "blocks")
	for i := 0; i < nb; i++ {
		parent := s.Head()
		dep, when := s.NextSlot(t, parent)
		b, verdict := s.MineAndValidate(dep, parent, when, s.GenBlockTxs(t, parent, when, rapid.IntRange(0, 4).Draw(t, "ntxs")))
		if b == nil || verdict != nil {
			t.Fatalf("harness: workload block: %v", verdict)
		}
	}
	canon := s.Blocks
	for _, b := range canon {
		w.Blocks = append(w.Blocks, sim.EncodeBlock(b))
		for _, a := range s.Keys.HarvestLogs(b.ChangeLogs) {
			s.Addrs[a] = true
		}
		for _, tx := range b.Txs {
			if tx.Type() == 1 {
				w.Codes = append(w.Codes, sim.ContractAddr(tx).Hex())
			}
		}
	}
	// a fork block now and then (never confirmed)
	nCanon := len(canon)
	if d > 1 && rapid.Bool().Draw(t, "fork") {
		i := rapid.IntRange(0, nCanon-1).Draw(t, "forkAt")
		parent := s.F.Genesis
		if i > 0 {
			parent = canon[i-1]
		}
		cnt := s.F.DM.GetDeputiesCount(parent.Height() + 1)
		rank := (s.F.RankOf(parent.Height()+1, canon[i].MinerAddress()) + 1) % cnt
		when := s.F.TimeFor(parent, rank, 0, 2)
		if fb, _, err := s.F.MineAs(s.F.DeputyAt(parent.Height()+1, rank), parent, when, nil); err == nil {
			w.Blocks = append(w.Blocks, sim.EncodeBlock(fb))
		}
	}
	for _, a := range s.AddrList() {
		w.Addrs = append(w.Addrs, a.Hex())
	}
	w.Keys = s.Keys
	// ops: blocks in order (fork blocks after their parent), confirm packets at generated moments
	for i := 0; i < nCanon; i++ {
		w.Ops = append(w.Ops, Op{Kind: "block", Block: i})
		if len(w.Blocks) > nCanon && canon[i].Height() == sim.DecodeBlock(w.Blocks[nCanon]).Height() {
			w.Ops = append(w.Ops, Op{Kind: "block", Block: nCanon})
		}
		if d > 1 && rapid.IntRange(0, 2).Draw(t, "confirmNow") != 0 {
			target := rapid.IntRange(0, i).Draw(t, "confirmWhich")
			var signers []int
			for x := 0; x < d; x++ {
				signers = append(signers, x)
			}
			w.Ops = append(w.Ops, Op{Kind: "confirms", Block: target, Signers: signers})
		}
	}
	// golden per-block data: a reference node where every canonical block becomes the latest stable block in turn
	ref := sim.NewNode(s.W, nil, 17)
	g.byHeight = append(g.byHeight, ref.Genesis.Hash().Hex())
	g.dump[ref.Genesis.Hash().Hex()] = dumpAt(ref, w, ref.Genesis.Hash())
	g.top[ref.Genesis.Hash().Hex()] = renderTop(ref, ref.Genesis.Hash())
	for _, b := range canon {
		if err := ref.Insert(b); err != nil {
			ref.Destroy()
			t.Fatalf("harness: reference node rejects a canonical block: %v", err)
		}
		var sigs []types.SignData
		for _, dep := range s.W.Deputies {
			sigs = append(sigs, sim.ConfirmAs(b, dep))
		}
		ref.BC.InsertConfirms(b.Height(), b.Hash(), sigs)
		if ref.Stable().Hash() != b.Hash() {
			ref.Destroy()
			t.Fatalf("harness: reference node did not make block %d stable", b.Height())
		}
		ref.Drain()
		g.byHeight = append(g.byHeight, b.Hash().Hex())
		g.dump[b.Hash().Hex()] = dumpAt(ref, w, b.Hash())
		g.top[b.Hash().Hex()] = renderTop(ref, b.Hash())
	}
	ref.Destroy()
	return w, g
}

func modes(t *rapid.T) string {
	return rapid.SampledFrom([]string{"clean", "tornhalf", "torn1", "tornlast", "clean"}).Draw(t, "mode")
}

func TestC08Crash(t *testing.T) {
	rapid.Check(t, func(rt *rapid.T) {
		w, g := genWorkload(rt)
		scratch := sim.NewDir()
		os.MkdirAll(scratch, 0755)
		defer os.RemoveAll(scratch)
		wlPath := filepath.Join(scratch, "workload.json")
		buf, _ := json.Marshal(w)
		os.WriteFile(wlPath, buf, 0644)
		// golden end state and the number of crash points: a child that is not disturbed
		gr := runChild("run", filepath.Join(scratch, "golden"), wlPath, 0, "clean", scratch, "golden")
		if gr.exit != 0 || gr.report == nil {
			rt.Fatalf("harness: the undisturbed run failed (exit %d)\n%s", gr.exit, tail(gr.output, 20))
		}
		g.final = gr.report
		total := gr.report.Hits
		// the crash points of this workload: all of them in the thorough tier (sharded by the driver through the seed), a generated sample otherwise
		npoints := rapid.IntRange(3, 6).Draw(rt, "points")
		if sim.Tier() == "thorough" {
			npoints = 12
		}
		crashed, torn, second := 0, 0, 0
		var samples []string
		for p := 0; p < npoints; p++ {
			// half of the points anywhere, the others inside one class of writes (the rare ones matter most)
			class := rapid.SampledFrom([]string{"all", "wal", "all", "ctx", "ldb", "wal"}).Draw(rt, "class")
			n := total
			if class != "all" {
				n = gr.report.PerClass[class]
			}
			if n == 0 {
				continue
			}
			k := rapid.IntRange(1, n).Draw(rt, "crashAt")
			mode := modes(rt)
			dir := filepath.Join(scratch, fmt.Sprintf("d%d", p))
			crashClass = class
			cr := runChild("run", dir, wlPath, k, mode, scratch, fmt.Sprintf("run%d", p))
			crashClass = "all"
			what := fmt.Sprintf("crash at write %d of %d of class %s (%s, %s)", k, n, class, cr.trace, mode)
			if !cr.killed {
				if cr.exit == 0 {
					continue // the asynchronous writer had fewer writes this time: the point was not reached
				}
				rt.Fatalf("harness: the crashing run ended with exit %d without being killed\n%s", cr.exit, tail(cr.output, 20))
			}
			crashed++
			img := dir + ".img"
			exec.Command("cp", "-a", dir, img).Run()
			if strings.HasPrefix(mode, "torn") && !strings.Contains(cr.trace, "size=0") {
				torn++
			}
			// sometimes the recovery is hit too
			// a torn write-ahead file is where a second crash hurts most: always follow it up, early in the recovery
			afterTornWal := strings.HasPrefix(mode, "torn") && strings.Contains(cr.trace, "flush-write tmp.data")
			if rapid.IntRange(0, 2).Draw(rt, "secondLevel") == 0 || afterTornWal {
				k2 := rapid.IntRange(1, 40).Draw(rt, "crashAt2")
				if afterTornWal {
					k2 = rapid.IntRange(1, 12).Draw(rt, "crashAt2early")
				}
				m2 := modes(rt)
				r1 := runChild("recover", dir, wlPath, k2, m2, scratch, fmt.Sprintf("rec%da", p))
				if r1.killed {
					second++
					what += fmt.Sprintf(" + crash at write %d of the recovery (%s, %s)", k2, r1.trace, m2)
					if r1.lastDone > cr.lastDone {
						cr.lastDone = r1.lastDone
					}
				} else if r1.exit != 0 {
					saveImage(img, scratch)
					rt.Fatalf("%s", compare(g, r1, cr.lastDone, what+" + disturbed recovery"))
				}
			}
			rr := runChild("recover", dir, wlPath, 0, "clean", scratch, fmt.Sprintf("rec%d", p))
			if msg := compare(g, rr, cr.lastDone, what); msg != "" {
				saveImage(img, scratch)
				rt.Fatalf("%s\nworkload: %d blocks, ops %v", msg, len(w.Blocks), w.Ops)
			}
			samples = append(samples, what)
			os.RemoveAll(dir)
			os.RemoveAll(img)
		}
		promotions := 0
		for _, op := range w.Ops {
			if op.Kind == "confirms" {
				promotions++
			}
		}
		if w.Deputies == 1 {
			promotions = len(w.Ops)
		}
		cls := []string{fmt.Sprintf("deputies%d", w.Deputies), fmt.Sprintf("blocks%d", len(w.Blocks)), fmt.Sprintf("crashed%d", crashed), fmt.Sprintf("torn%d", min(torn, 3)), fmt.Sprintf("second-level%d", min(second, 2)), fmt.Sprintf("promotions>=%d", min(promotions, 3))}
		sim.Case("crash", sim.HashOf(fmt.Sprint(w.Ops, samples)), crashed > 0 && promotions > 0, cls, func() interface{} { return fmt.Sprintf("ops %v; %v", w.Ops, samples) })
	})
}

// saveImage keeps the crashed data directory as the replay artefact (the instant of a crash is schedule dependent; the image is not).
func saveImage(dir, scratch string) {
	dst := os.Getenv("VERIF_CASEFILE")
	if dst == "" {
		return
	}
	out := strings.TrimSuffix(dst, ".json") + ".tar"
	exec.Command("tar", "-C", filepath.Dir(dir), "-cf", out, filepath.Base(dir), "workload.json").Run()
	os.WriteFile(dst, []byte(fmt.Sprintf(`{"image":%q}`, out)), 0644)
}

// dumpWal lists the records of a write-ahead file (debugging aid).
func dumpWal(path string) {
	f, err := os.Open(path)
	if err != nil {
		fmt.Println("open:", err)
		return
	}
	defer f.Close()
	st, _ := f.Stat()
	fmt.Println("size", st.Size())
	for off := int64(0); off < st.Size(); {
		head, body, err := store.FileUtilsRead(f, off)
		if err != nil || head == nil {
			fmt.Println("stop at", off, err)
			return
		}
		k := common.ToHex(body.Key)
		if len(k) > 20 {
			k = k[:20]
		}
		fmt.Printf("off=%d flag=%d key=%s vallen=%d\n", off, head.Flg, k, len(body.Val))
		off += int64(store.FileUtilsAlign(uint32(store.RecordHeadLength) + head.Len))
	}
}
