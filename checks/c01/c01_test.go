// C01 — deterministic state transition: every honestly mined block re-executes identically.
package c01

import (
	"fmt"
	"os"
	"testing"

	"verif/sim"

	"github.com/LemoFoundationLtd/lemochain-core/chain/types"
	"github.com/LemoFoundationLtd/lemochain-core/common"
	"pgregory.net/rapid"
)

func TestMain(m *testing.M) {
	sim.Quiet()
	code := m.Run()
	os.RemoveAll(sim.TmpRoot())
	os.Exit(code)
}

var fullDump = sim.DumpOptions{Roots: true, Versions: true}

func compareNodes(t *rapid.T, s *sim.Scenario, a, b *sim.Node, hash common.Hash, what string) {
	addrs := s.AddrList()
	da := sim.DumpState(a.View(hash), addrs, &s.Keys, fullDump)
	db := sim.DumpState(b.View(hash), addrs, &s.Keys, fullDump)
	if diff := da.Diff(db); diff != "" {
		t.Fatalf("%s: account state differs between the two nodes at block %s (- first, + second):\n%s\nhistory:\n%s", what, hash.Hex()[:10], diff, join(s.History))
	}
	// the stored account records, field for field (raw code hash included)
	for _, addr := range addrs {
		ra, rb := a.View(hash).GetAccount(addr), b.View(hash).GetAccount(addr)
		if ra.GetCodeHash() != rb.GetCodeHash() {
			t.Fatalf("%s: stored code hash of %s differs: %s vs %s\nhistory:\n%s", what, addr.Hex(), ra.GetCodeHash().Hex(), rb.GetCodeHash().Hex(), join(s.History))
		}
	}
}

func join(h []string) string {
	out := ""
	for _, l := range h {
		out += "  " + l + "\n"
	}
	return out
}

func TestC01Determinism(t *testing.T) {
	rapid.Check(t, func(rt *rapid.T) {
		d := rapid.IntRange(1, 3).Draw(rt, "deputies")
		w := sim.DefaultWeights
		w.Asset, w.Multisig = 2, 1
		s := sim.NewScenario(d, w)
		defer s.Close()
		nblocks := rapid.IntRange(1, 5).Draw(rt, "nblocks")
		restartAt := rapid.IntRange(0, nblocks).Draw(rt, "restartAt")
		var classes []string
		nontrivial := false
		for i := 0; i < nblocks; i++ {
			parent := s.Head()
			dep, when := s.NextSlot(rt, parent)
			offered := s.GenBlockTxs(rt, parent, when, rapid.IntRange(0, 10).Draw(rt, "ntxs"))
			header := sim.Header(parent, dep.Miner.Addr, when, "")
			// the gas limit is the miner's strategy, not consensus: sometimes a nearly full block
			if g := rapid.SampledFrom([]uint64{0, 0, 0, 60000, 122000, 250000, 600000}).Draw(rt, "gasLimit"); g != 0 {
				header.GasLimit = g
				classes = append(classes, "small-gas-limit")
			}
			// what the node executed before must not matter: a throw-away assembly of other candidates on the same parent
			if rapid.IntRange(0, 2).Draw(rt, "throwAway") == 0 {
				other := s.GenBlockTxs(rt, parent, when, rapid.IntRange(1, 4).Draw(rt, "nother"))
				if _, _, err := s.F.Assemble(dep, header, sim.Txs(other)); err != nil {
					rt.Fatalf("throw-away assembly: %v", err)
				}
				classes = append(classes, "throw-away-assembly")
			}

			// the assembly is repeated on the same parent (fresh map iteration orders); nothing is stored yet
			first, _, err := s.F.Assemble(dep, header, sim.Txs(offered))
			if err != nil {
				rt.Fatalf("assemble: %v\nhistory:\n%s", err, join(s.History))
			}
			for rep := 0; rep < 2; rep++ {
				again, _, err := s.F.Assemble(dep, header, sim.Txs(offered))
				if err != nil || again.Hash() != first.Hash() {
					rt.Fatalf("assembling the same candidates on the same parent twice gives different blocks (%v)\n%s\nhistory:\n%s", err, s.DescribeBlock(first, offered), join(s.History))
				}
			}
			// metamorphic: without the candidates the miner discarded, the same block results
			only, _, err := s.F.Assemble(dep, header, first.Txs)
			if err != nil || only.Hash() != first.Hash() || len(only.Txs) != len(first.Txs) {
				rt.Fatalf("the block depends on the discarded candidates: with them %s (%d txs), without them %s (%d txs)\n%s\nhistory:\n%s",
					first.Hash().Hex()[:10], len(first.Txs), only.Hash().Hex()[:10], len(only.Txs), s.DescribeBlock(first, offered), join(s.History))
			}

			// the validator first receives a forged sibling of the block (same transactions, a wrong root, signed by the
			// deputy in turn): it must reject it, and that must not influence the honest block
			if rapid.IntRange(0, 2).Draw(rt, "forgedSibling") == 0 {
				forged := sim.CloneBlock(first)
				switch rapid.IntRange(0, 2).Draw(rt, "forgeWhat") {
				case 0:
					forged.Header.VersionRoot[3] ^= 0x40
				case 1:
					forged.Header.LogRoot[5] ^= 0x01
				default:
					forged.Header.GasUsed++
				}
				sim.SignBlockAs(forged, dep)
				if err := s.V.Insert(forged); err == nil {
					rt.Fatalf("the validator accepts a block with a forged root\nhistory:\n%s", join(s.History))
				}
				classes = append(classes, "forged-sibling-first")
			}
			b, _, err := s.F.MineAsHeader(dep, header, sim.Txs(offered))
			var verdict error
			if err != nil {
				b, verdict = nil, err
			} else {
				s.NoteBlock(b, offered)
				verdict = s.V.Insert(b)
			}
			if b == nil {
				rt.Fatalf("%v\nhistory:\n%s", verdict, join(s.History))
			}
			if b.Hash() != first.Hash() {
				rt.Fatalf("the stored block differs from the trial assembly\nhistory:\n%s", join(s.History))
			}
			if verdict != nil {
				rt.Fatalf("the validator rejects an honestly mined block: %v\nhistory:\n%s", verdict, join(s.History))
			}
			compareNodes(rt, s, s.F, s.V, b.Hash(), "miner vs validator")
			s.ConfirmAll(b)
			if i+1 == restartAt {
				s.V.Reopen()
				s.History = append(s.History, "validator restarted")
			}
			discarded, failedIncluded := len(offered)-len(b.Txs), 0
			if len(b.Txs) > 0 && discarded > 0 {
				nontrivial = true
			}
			for _, g := range offered {
				classes = append(classes, g.Kind)
				if g.Decoy != "" {
					classes = append(classes, "decoy")
				}
			}
			_ = failedIncluded
			classes = append(classes, fmt.Sprintf("deputies%d", d))
		}
		// a node that has executed nothing else before receives the whole chain in one go
		late := sim.NewNode(s.W, nil, 17)
		defer late.Destroy()
		for _, b := range s.Blocks {
			if err := late.Insert(b); err != nil {
				rt.Fatalf("a fresh node rejects block %d of the honest chain: %v\nhistory:\n%s", b.Height(), err, join(s.History))
			}
			confirmOn(late, s, b)
		}
		head := s.Head()
		compareNodes(rt, s, s.F, late, head.Hash(), "miner vs late joiner")
		if s.V.Current().Hash() == head.Hash() {
			compareNodes(rt, s, s.V, late, head.Hash(), "validator vs late joiner")
		}
		sim.Case("determinism", sim.HashOf(s.History), nontrivial, classes, func() interface{} { return s.History })
	})
}

func confirmOn(n *sim.Node, s *sim.Scenario, b *types.Block) {
	if len(s.W.Deputies) == 1 {
		return
	}
	var sigs []types.SignData
	for _, d := range s.W.Deputies {
		if d.Miner.Addr != b.MinerAddress() {
			sigs = append(sigs, sim.ConfirmAs(b, d))
		}
	}
	n.BecomeSelf()
	n.BC.InsertConfirms(b.Height(), b.Hash(), sigs)
}
