// C01 — unit "stable-lag": the same honest chains, but the validator learns that a block is stable later than the miner
// does (confirm packets reach it one block late, or only at the end). The verdict on a block must not depend on that: the
// stable height is no part of (parent state, header, transaction list).
package c01

import (
	"fmt"
	"testing"

	"verif/sim"

	"github.com/LemoFoundationLtd/lemochain-core/chain/params"
	"github.com/LemoFoundationLtd/lemochain-core/chain/types"
	"pgregory.net/rapid"
)

func confirmsFor(s *sim.Scenario, b *types.Block) []types.SignData {
	var sigs []types.SignData
	for _, d := range s.W.Deputies {
		if d.Miner.Addr != b.MinerAddress() {
			sigs = append(sigs, sim.ConfirmAs(b, d))
		}
	}
	return sigs
}

func hasAssetDependentTx(b *types.Block) bool {
	for _, tx := range b.Txs {
		list := types.Transactions{tx}
		if tx.Type() == params.BoxTx {
			if box, err := types.GetBox(tx.Data()); err == nil {
				list = box.SubTxList
			}
		}
		for _, x := range list {
			switch x.Type() {
			case params.IssueAssetTx, params.ReplenishAssetTx, params.ModifyAssetTx, params.TransferAssetTx:
				return true
			}
		}
	}
	return false
}

func TestC01StableLag(t *testing.T) {
	rapid.Check(t, func(rt *rapid.T) {
		d := rapid.IntRange(2, 3).Draw(rt, "deputies")
		w := sim.Weights{Transfer: 3, Contract: 3, Asset: 6, Vote: 1, Candidate: 1, Box: 1}
		s := sim.NewScenario(d, w)
		defer s.Close()
		nblocks := rapid.IntRange(2, 6).Draw(rt, "nblocks")
		lag := rapid.SampledFrom([]int{1, 1, 2, 100}).Draw(rt, "lag") // how many blocks later the validator gets a block's confirms
		var pending []*types.Block                                    // blocks whose confirms the validator has not got yet
		knownHit, lagged := false, 0
		give := func(b *types.Block) {
			s.V.BecomeSelf()
			s.V.BC.InsertConfirms(b.Height(), b.Hash(), confirmsFor(s, b))
			s.V.Drain()
		}
		for i := 0; i < nblocks; i++ {
			parent := s.Head()
			dep, when := s.NextSlot(rt, parent)
			offered := s.GenBlockTxs(rt, parent, when, rapid.IntRange(0, 8).Draw(rt, "ntxs"))
			b, _, err := s.F.MineAs(dep, parent, when, sim.Txs(offered))
			if err != nil {
				rt.Fatalf("mining: %v\nhistory:\n%s", err, join(s.History))
			}
			s.NoteBlock(b, offered)
			if s.V.Stable().Height() < s.F.Stable().Height() {
				lagged++
			}
			verdict := s.V.Insert(b)
			if verdict != nil {
				// listed finding: asset transactions are checked against the STABLE account of the issuer, so a validator which has
				// not yet seen the block that created / issued the asset become stable refuses the block. The matcher: the block
				// holds such a transaction, the validator's stable block is behind the miner's, and the very same block is accepted,
				// with the same resulting state, as soon as the validator has caught up. Anything else stays a violation.
				if !hasAssetDependentTx(b) || s.V.Stable().Height() >= s.F.Stable().Height() {
					rt.Fatalf("the validator rejects an honestly mined block: %v (validator stable %d, miner stable %d)\n%s\nhistory:\n%s", verdict, s.V.Stable().Height(), s.F.Stable().Height(), s.DescribeBlock(b, offered), join(s.History))
				}
				for _, pb := range pending {
					give(pb)
				}
				pending = nil
				if again := s.V.Insert(b); again != nil {
					rt.Fatalf("the validator rejects an honestly mined block even after its stable block caught up: %v\n%s\nhistory:\n%s", again, s.DescribeBlock(b, offered), join(s.History))
				}
				sim.KnownHit("stable-lag", "C01-asset-tx-needs-stable-asset", fmt.Sprintf("block %d refused while the validator's stable block was behind, accepted afterwards", b.Height()))
				knownHit = true
			}
			compareNodes(rt, s, s.F, s.V, b.Hash(), "miner vs lagging validator")
			// the miner's side: stable at once
			s.F.BecomeSelf()
			s.F.BC.InsertConfirms(b.Height(), b.Hash(), confirmsFor(s, b))
			s.F.Drain()
			pending = append(pending, b)
			for len(pending) > lag {
				give(pending[0])
				pending = pending[1:]
			}
		}
		for _, pb := range pending {
			give(pb)
		}
		if s.V.Stable().Hash() != s.F.Stable().Hash() {
			rt.Fatalf("after all confirms arrived the validator's stable block differs from the miner's\nhistory:\n%s", join(s.History))
		}
		sim.Case("stable-lag", sim.HashOf(s.History, lag), lagged > 0, []string{fmt.Sprintf("lag%d", min(lag, 3)), fmt.Sprintf("known-finding-hit=%v", knownHit), fmt.Sprintf("deputies%d", d)}, func() interface{} { return s.History })
	})
}
