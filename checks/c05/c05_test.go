// C05 — LEMO is conserved; gas is charged exactly; balances never go negative.
package c05

import (
	"encoding/json"
	"fmt"
	"math/big"
	"os"
	"testing"

	"verif/sim"

	"github.com/LemoFoundationLtd/lemochain-core/chain/params"
	"github.com/LemoFoundationLtd/lemochain-core/chain/types"
	"github.com/LemoFoundationLtd/lemochain-core/common"
	"pgregory.net/rapid"
)

func TestMain(m *testing.M) {
	sim.Quiet()
	code := m.Run()
	os.RemoveAll(sim.TmpRoot())
	os.Exit(code)
}

func join(h []string) string {
	out := ""
	for _, l := range h {
		out += "  " + l + "\n"
	}
	return out
}

type blockFacts struct {
	boxSubFee   *big.Int // known finding: sub transaction gas credited to the miner at the box price although nobody paid it
	destroyed   []common.Address
	txAmountSum *big.Int
}

// boxCorrection computes, from the packaged block itself, the amount the known finding C05-box-subgas mints:
// sum over packaged boxes of (gas used by the sub transactions) x (gas price of the box).
func boxCorrection(b *types.Block) *big.Int {
	total := new(big.Int)
	for _, tx := range b.Txs {
		if tx.Type() != params.BoxTx {
			continue
		}
		box, err := types.GetBox(tx.Data())
		if err != nil {
			continue
		}
		sub := uint64(0)
		for _, s := range box.SubTxList {
			sub += s.GasUsed()
		}
		total.Add(total, new(big.Int).Mul(new(big.Int).SetUint64(sub), tx.GasPrice()))
	}
	return total
}

// referenceRewards: what the statement allows to be minted at this block: the term reward set for the previous term,
// split over that term's deputies by votes (equally if nobody has votes), each share rounded down to whole LEMO.
func referenceRewards(s *sim.Scenario, b *types.Block, rewardSet map[uint32]*big.Int) *big.Int {
	h := b.Height()
	if h < params.TermDuration+params.InterimDuration+1 || h%params.TermDuration != params.InterimDuration+1 {
		return new(big.Int)
	}
	term := (h-params.InterimDuration-1)/params.TermDuration - 1
	total, ok := rewardSet[term]
	if !ok || total.Sign() <= 0 {
		return new(big.Int)
	}
	rec, err := s.F.DM.GetTermByHeight(h-1, true)
	if err != nil {
		return new(big.Int)
	}
	votes := new(big.Int)
	for _, n := range rec.Nodes {
		votes.Add(votes, n.Votes)
	}
	sum := new(big.Int)
	one := sim.Lemo(1)
	for _, n := range rec.Nodes {
		share := new(big.Int)
		if votes.Sign() == 0 {
			share.Div(total, big.NewInt(int64(len(rec.Nodes))))
		} else {
			share.Mul(total, n.Votes)
			share.Div(share, votes)
		}
		share.Sub(share, new(big.Int).Mod(share, one))
		sum.Add(sum, share)
	}
	return sum
}

// parentState is read while the parent is still the validator's head (a view of an older stable block is not available any more).
type parentState struct {
	balance map[common.Address]*big.Int
	hasCode map[common.Address]bool
}

func readParentState(s *sim.Scenario, parent *types.Block) *parentState {
	ps := &parentState{balance: map[common.Address]*big.Int{}, hasCode: map[common.Address]bool{}}
	view := s.V.View(parent.Hash())
	for _, a := range s.AddrList() {
		acc := view.GetAccount(a)
		ps.balance[a] = acc.GetBalance()
		c, _ := acc.GetCode()
		ps.hasCode[a] = len(c) > 0
	}
	return ps
}

func checkBlock(t *rapid.T, s *sim.Scenario, ps *parentState, b *types.Block, offered []*sim.GenTx, destroyed []common.Address, rewardSet map[uint32]*big.Int) (classes []string, nontrivial bool) {
	addrs := s.AddrList()
	after := s.V.View(b.Hash())
	sumBefore, sumAfter := new(big.Int), new(big.Int)
	delta := map[common.Address]*big.Int{}
	for _, a := range addrs {
		x, ok := ps.balance[a]
		if !ok {
			t.Fatalf("harness: address %s appeared after the parent state was read", a.Hex())
		}
		y := after.GetAccount(a).GetBalance()
		if y.Sign() < 0 {
			t.Fatalf("negative balance %v at %s after block %d\nhistory:\n%s", y, a.Hex(), b.Height(), join(s.History))
		}
		sumBefore.Add(sumBefore, x)
		sumAfter.Add(sumAfter, y)
		delta[a] = new(big.Int).Sub(y, x)
	}
	minted := new(big.Int).Sub(sumAfter, sumBefore)
	rewards := referenceRewards(s, b, rewardSet)
	corr := boxCorrection(b)
	allowed := new(big.Int).Add(rewards, corr)
	if corr.Sign() > 0 {
		sim.KnownHit("conservation", "C05-box-subgas-minted", fmt.Sprintf("block %d: %v", b.Height(), corr))
		classes = append(classes, "box-packaged")
	}
	if rewards.Sign() > 0 {
		classes = append(classes, "reward-paid")
	}
	if minted.Cmp(allowed) > 0 {
		t.Fatalf("block %d creates LEMO: the sum of all balances grows by %v, allowed are rewards %v (+ known box surplus %v)\n%s\nhistory:\n%s", b.Height(), minted, rewards, corr, s.DescribeBlock(b, offered), join(s.History))
	}
	if minted.Cmp(allowed) < 0 {
		// LEMO may only disappear through a contract that self-destructs to itself, and no more than such contracts held
		burned := new(big.Int).Sub(allowed, minted)
		bound := new(big.Int)
		for _, a := range destroyed {
			bound.Add(bound, ps.balance[a])
		}
		for _, tx := range b.Txs {
			bound.Add(bound, tx.Amount())
			if tx.Type() == params.BoxTx {
				if box, err := types.GetBox(tx.Data()); err == nil {
					for _, sub := range box.SubTxList {
						bound.Add(bound, sub.Amount())
					}
				}
			}
		}
		if len(destroyed) == 0 || burned.Cmp(bound) > 0 {
			t.Fatalf("block %d destroys %v LEMO (self-destructed contracts: %v, they could hold at most %v)\n%s\nhistory:\n%s", b.Height(), burned, destroyed, bound, s.DescribeBlock(b, offered), join(s.History))
		}
		classes = append(classes, "burn")
	}
	// gas figures
	total := uint64(0)
	for _, tx := range b.Txs {
		limit := tx.GasLimit()
		if tx.Type() == params.BoxTx {
			if box, err := types.GetBox(tx.Data()); err == nil {
				for _, sub := range box.SubTxList {
					limit += sub.GasLimit()
					if sub.GasUsed() > sub.GasLimit() {
						t.Fatalf("sub transaction used %d gas, limit %d", sub.GasUsed(), sub.GasLimit())
					}
				}
			}
		}
		if tx.GasUsed() > limit {
			t.Fatalf("transaction %s used %d gas, limit %d\nhistory:\n%s", tx.Hash().Hex()[:10], tx.GasUsed(), limit, join(s.History))
		}
		total += tx.GasUsed()
	}
	if total != b.GasUsed() {
		t.Fatalf("header gas used %d, transactions sum up to %d", b.GasUsed(), total)
	}
	// a block in which nothing was packaged changes no balance (candidates that are not included cost nothing)
	if len(b.Txs) == 0 && rewards.Sign() == 0 {
		for a, d := range delta {
			if d.Sign() != 0 && !isRefundHeight(b.Height()) {
				t.Fatalf("block %d packaged nothing but the balance of %s changes by %v\n%s\nhistory:\n%s", b.Height(), a.Hex(), d, s.DescribeBlock(b, offered), join(s.History))
			}
		}
		if len(offered) > 0 {
			classes = append(classes, "all-discarded")
			nontrivial = true
		}
	}
	// exact attribution where it is unambiguous: a block with exactly one plain value transaction to an account without code
	if len(b.Txs) == 1 && rewards.Sign() == 0 && !isRefundHeight(b.Height()) {
		tx := b.Txs[0]
		toCode := false
		if tx.To() != nil {
			_, pre := map[common.Address]bool{common.BytesToAddress([]byte{1}): true, common.BytesToAddress([]byte{2}): true, common.BytesToAddress([]byte{3}): true, common.BytesToAddress([]byte{4}): true,
				common.BytesToAddress([]byte{5}): true, common.BytesToAddress([]byte{6}): true, common.BytesToAddress([]byte{7}): true, common.BytesToAddress([]byte{8}): true, common.BytesToAddress([]byte{9}): true}[*tx.To()]
			toCode = ps.hasCode[*tx.To()] || pre
		}
		if tx.Type() == params.OrdinaryTx && tx.To() != nil && !toCode {
			fee := new(big.Int).Mul(new(big.Int).SetUint64(tx.GasUsed()), tx.GasPrice())
			want := map[common.Address]*big.Int{}
			add := func(a common.Address, v *big.Int) {
				if want[a] == nil {
					want[a] = new(big.Int)
				}
				want[a].Add(want[a], v)
			}
			add(tx.From(), new(big.Int).Neg(tx.Amount()))
			add(*tx.To(), tx.Amount())
			add(tx.GasPayer(), new(big.Int).Neg(fee))
			income := s.W.DeputyByMiner(b.MinerAddress()).Income.Addr
			add(income, fee)
			for _, a := range addrs {
				w := want[a]
				if w == nil {
					w = new(big.Int)
				}
				if delta[a].Cmp(w) != 0 {
					t.Fatalf("block %d, single transfer of %v with fee %v: balance of %s changes by %v, expected %v\n%s\nhistory:\n%s", b.Height(), tx.Amount(), fee, a.Hex(), delta[a], w, s.DescribeBlock(b, offered), join(s.History))
				}
			}
			classes = append(classes, "exact-attribution")
		}
	}
	for _, tx := range b.Txs {
		if tx.Type() == params.BoxTx || tx.Type() == params.RegisterTx || (tx.Type() <= 1 && len(tx.Data()) > 0) {
			nontrivial = true
		}
	}
	if rewards.Sign() > 0 || len(destroyed) > 0 {
		nontrivial = true
	}
	return classes, nontrivial
}

func isRefundHeight(h uint32) bool {
	return h >= params.TermDuration+params.InterimDuration+1 && h%params.TermDuration == params.InterimDuration+1
}

func runHistory(rt *rapid.T, s *sim.Scenario, nblocks int, rewardTerms bool) ([]string, bool) {
	var classes []string
	nontrivial := false
	rewardSet := map[uint32]*big.Int{}
	for i := 0; i < nblocks; i++ {
		parent := s.Head()
		dep, when := s.NextSlot(rt, parent)
		offered := s.GenBlockTxs(rt, parent, when, rapid.IntRange(0, 6).Draw(rt, "ntxs"))
		if rewardTerms && rapid.IntRange(0, 3).Draw(rt, "setReward") == 0 {
			term := uint32(rapid.IntRange(0, 2).Draw(rt, "rewardTerm"))
			val := sim.Lemo(int64(rapid.SampledFrom([]int{0, 1, 7, 1000, 999999}).Draw(rt, "rewardValue")))
			val.Add(val, big.NewInt(int64(rapid.IntRange(0, 5).Draw(rt, "rewardDust"))))
			to := params.TermRewardContract
			data := []byte(fmt.Sprintf(`{"term":"%d","value":"%s"}`, term, val))
			tx := sim.Sign(sim.TxSpec{Type: params.OrdinaryTx, From: s.W.Founder.Addr, To: &to, GasLimit: 500000, Data: data, Exp: uint64(when) + 600, Message: s.Gen.Nonce()}.Build(), s.W.Founder.Key)
			offered = append(offered, &sim.GenTx{Tx: tx, Kind: "set-reward", Note: fmt.Sprintf("term %d value %v", term, val)})
		}
		header := sim.Header(parent, dep.Miner.Addr, when, "")
		// the miner chooses the gas limit: sometimes a nearly full block, so that candidates (and sub transactions inside boxes) hit it
		if g := rapid.SampledFrom([]uint64{0, 0, 0, 100000, 122000, 250000, 400000}).Draw(rt, "gasLimit"); g != 0 {
			header.GasLimit = g
		}
		trial, _, err := s.F.Assemble(dep, header, sim.Txs(offered))
		if err != nil {
			rt.Fatalf("assemble: %v\nhistory:\n%s", err, join(s.History))
		}
		for _, a := range s.Keys.HarvestLogs(trial.ChangeLogs) {
			s.Addrs[a] = true
		}
		var destroyed []common.Address
		for _, a := range s.AddrList() {
			if s.F.BC.AccountManager().GetAccount(a).GetSuicide() {
				destroyed = append(destroyed, a)
			}
		}
		for _, g := range offered {
			s.Addrs[g.Tx.From()] = true
			s.Addrs[g.Tx.GasPayer()] = true
			if g.Tx.To() != nil {
				s.Addrs[*g.Tx.To()] = true
			}
		}
		ps := readParentState(s, parent)
		b, _, merr := s.F.MineAsHeader(dep, header, sim.Txs(offered))
		verdict := merr
		if merr == nil {
			s.NoteBlock(b, offered)
			verdict = s.V.Insert(b)
		}
		if b == nil || verdict != nil {
			rt.Fatalf("block not produced / accepted: %v\nhistory:\n%s", verdict, join(s.History))
		}
		// The reward setting in force is whatever the reward table holds at the parent of the reward block (the founder's
		// transactions write it; failed or over-limit updates do not). It is read back from the chain as configuration.
		// (the reward block itself may still set the reward: rewards are issued after its transactions)
		for k := range rewardSet {
			delete(rewardSet, k)
		}
		for term, v := range readRewardTable(s, b) {
			rewardSet[term] = v
		}
		cls, nt := checkBlock(rt, s, ps, b, offered, destroyed, rewardSet)
		classes = append(classes, cls...)
		nontrivial = nontrivial || nt
		s.ConfirmAll(b)
	}
	return classes, nontrivial
}

func readRewardTable(s *sim.Scenario, b *types.Block) map[uint32]*big.Int {
	res := map[uint32]*big.Int{}
	acc := s.V.View(b.Hash()).GetAccount(params.TermRewardContract)
	raw, err := acc.GetStorageState(params.TermRewardContract.Hash())
	if err != nil || len(raw) == 0 {
		return res
	}
	table := make(params.RewardsMap)
	if json.Unmarshal(raw, &table) != nil {
		return res
	}
	for term, r := range table {
		res[term] = r.Value
	}
	return res
}

func hasFailEvent(b *types.Block, addr common.Address) bool {
	for _, l := range b.ChangeLogs {
		if l.Address == addr && l.LogType.String() == "AddEventLog" {
			if ev, ok := l.NewVal.(*types.Event); ok && len(ev.Topics) > 0 && ev.Topics[0] == types.TopicRunFail {
				return true
			}
		}
	}
	return false
}

func TestC05Conservation(t *testing.T) {
	rapid.Check(t, func(rt *rapid.T) {
		w := sim.DefaultWeights
		w.Contract, w.Box, w.Candidate, w.GasPayer = 7, 3, 2, 2
		s := sim.NewScenario(rapid.IntRange(1, 3).Draw(rt, "deputies"), w)
		defer s.Close()
		classes, nontrivial := runHistory(rt, s, rapid.IntRange(1, 5).Draw(rt, "nblocks"), false)
		sim.Case("conservation", sim.HashOf(s.History), nontrivial, classes, func() interface{} { return s.History })
	})
}

// TestC05Rewards: terms of 8 blocks with a 2 block interim, so that reward blocks (11, 19) with deposit refunds occur.
func TestC05Rewards(t *testing.T) {
	rapid.Check(t, func(rt *rapid.T) {
		w := sim.DefaultWeights
		w.Candidate, w.Vote, w.Contract, w.Box = 5, 3, 2, 1
		s := sim.NewScenarioWith(sim.Options{Deputies: rapid.IntRange(1, 3).Draw(rt, "deputies"), Weights: w, TermDuration: 8, InterimDuration: 2, DeputyCount: 3})
		defer s.Close()
		classes, nontrivial := runHistory(rt, s, rapid.IntRange(10, 19).Draw(rt, "nblocks"), true)
		sim.Case("rewards", sim.HashOf(s.History), nontrivial, classes, func() interface{} { return s.History })
	})
}
