// C03 — unit "terms": the 2/3 rule across a change of the deputy set. Chains with 8-block terms on which users register as
// candidates, so that the next term has other (and another number of) deputies. Confirm packets are generated from ALL node
// keys the world knows (deputies of the old term, of the new term, never-elected users, an outsider): only the deputies of the
// term the block belongs to may count, and as many of them as that term needs.
package c03

import (
	"fmt"
	"strings"
	"testing"

	"verif/sim"

	"github.com/LemoFoundationLtd/lemochain-core/chain/types"
	"github.com/LemoFoundationLtd/lemochain-core/common/crypto"
	"pgregory.net/rapid"
)

func TestC03Terms(t *testing.T) {
	rapid.Check(t, func(rt *rapid.T) {
		w := sim.Weights{Transfer: 3, Candidate: 6, Vote: 3}
		s := sim.NewScenarioWith(sim.Options{Deputies: rapid.IntRange(1, 4).Draw(rt, "deputies"), Weights: w, TermDuration: 8, InterimDuration: 2,
			DeputyCount: rapid.IntRange(2, 5).Draw(rt, "deputyCount"), Funding: []int64{6000900, 5000400, 5000350, 5100000, 5000201, 5001000}})
		defer s.Close()
		all := append(s.W.AllDeputies(), s.W.Outsider)
		nblocks := rapid.IntRange(9, 14).Draw(rt, "nblocks")
		var hist []string
		termSizes := map[int]bool{}
		foreignOffered, promotions := 0, 0
		lastStable := s.V.Stable().Height()
		for i := 0; i < nblocks; i++ {
			parent := s.Head()
			dep, when := s.NextSlot(rt, parent)
			b, verdict := s.MineAndValidate(dep, parent, when, s.GenBlockTxs(rt, parent, when, rapid.IntRange(0, 4).Draw(rt, "ntxs")))
			if b == nil || verdict != nil {
				rt.Fatalf("harness: block not produced / accepted: %v\nhistory: %s", verdict, strings.Join(hist, " "))
			}
			h := b.Height()
			term := s.V.DM.GetDeputiesByHeight(h, true)
			termSizes[len(term)] = true
			inTerm := map[string]bool{}
			for _, dn := range term {
				inTerm[string(dn.NodeID)] = true
			}
			need := (2*len(term) + 2) / 3
			// the packet: a generated selection of all known node keys
			var sigs []types.SignData
			var who []string
			for k, d := range all {
				if rapid.IntRange(0, 2).Draw(rt, fmt.Sprintf("signs%d", k)) == 0 {
					continue
				}
				sigs = append(sigs, sim.ConfirmAs(b, d))
				tag := fmt.Sprintf("k%d", k)
				if !inTerm[string(d.NodeID)] {
					tag += "(foreign)"
					foreignOffered++
				}
				who = append(who, tag)
			}
			s.V.BecomeSelf()
			s.V.BC.InsertConfirms(h, b.Hash(), sigs)
			s.F.BecomeSelf()
			s.F.BC.InsertConfirms(h, b.Hash(), sigs)
			hist = append(hist, fmt.Sprintf("b%d(term of %d, need %d) confirms:%v", h, len(term), need, who))
			// what the block may count: its miner and the packet's signers, as far as they are deputies of its term
			counted := map[string]bool{}
			full, err := s.V.DB.GetBlockByHash(b.Hash())
			if err != nil {
				rt.Fatalf("block %d cannot be loaded: %v", h, err)
			}
			hash := full.Hash()
			for _, sig := range append([][]byte{full.Header.SignData}, sigBytes(full.Confirms)...) {
				pub, err := crypto.Ecrecover(hash[:], sig)
				if err != nil {
					rt.Fatalf("block %d stores a signature that recovers to nothing\nhistory: %s", h, strings.Join(hist, " "))
				}
				id := string(pub[1:])
				if !inTerm[id] {
					rt.Fatalf("block %d stores a confirm of a node that is no deputy of its term\nhistory: %s", h, strings.Join(hist, " "))
				}
				if counted[id] {
					rt.Fatalf("block %d stores two signatures of one deputy\nhistory: %s", h, strings.Join(hist, " "))
				}
				counted[id] = true
			}
			st := s.V.Stable().Height()
			if st > lastStable {
				promotions++
				// every newly stable block must carry enough deputies of ITS term
				for x := lastStable + 1; x <= st; x++ {
					sb := s.V.BC.GetBlockByHeight(x)
					if sb == nil {
						rt.Fatalf("stable block %d cannot be loaded\nhistory: %s", x, strings.Join(hist, " "))
					}
					if x < st {
						continue // made stable by a descendant
					}
					tx := s.V.DM.GetDeputiesByHeight(x, true)
					needX := (2*len(tx) + 2) / 3
					fullX, _ := s.V.DB.GetBlockByHash(sb.Hash())
					if got := 1 + len(fullX.Confirms); got < needX {
						rt.Fatalf("block %d became stable with %d signers, its term of %d deputies needs %d\nhistory: %s", x, got, len(tx), needX, strings.Join(hist, " "))
					}
				}
				lastStable = st
			} else if h == st+1 && len(counted) >= need {
				rt.Fatalf("block %d carries %d distinct deputies of its term (%d needed) and its parent is stable, but it did not become stable\nhistory: %s", h, len(counted), need, strings.Join(hist, " "))
			}
			// the snapshot block must be stable before the interim ends, or the next term cannot start: help it along
			if st < h && h%8 == 0 || (h > 8 && st+2 < h) {
				s.ConfirmAll(b)
				lastStable = s.V.Stable().Height()
				hist = append(hist, fmt.Sprintf("b%d confirmed by its whole term", h))
			}
		}
		cls := []string{fmt.Sprintf("term-sizes%d", len(termSizes)), fmt.Sprintf("promotions>=%d", min(promotions, 5)/2*2), fmt.Sprintf("foreign-offered=%v", foreignOffered > 0)}
		sim.Case("terms", sim.HashOf(strings.Join(hist, " ")), len(termSizes) >= 2 && promotions >= 2, cls, func() interface{} { return strings.Join(hist, " ") })
	})
}

func sigBytes(list []types.SignData) [][]byte {
	var res [][]byte
	for _, c := range list {
		cc := c
		res = append(res, cc[:])
	}
	return res
}
