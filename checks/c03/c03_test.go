// C03 — finality: stable needs 2/3 distinct deputies, only moves forward, never forks.
package c03

import (
	"fmt"
	"os"
	"sort"
	"testing"

	"verif/sim"

	"github.com/LemoFoundationLtd/lemochain-core/chain/types"
	"github.com/LemoFoundationLtd/lemochain-core/common"
	"github.com/LemoFoundationLtd/lemochain-core/common/crypto"
	"pgregory.net/rapid"
)

func TestMain(m *testing.M) {
	sim.Quiet()
	code := m.Run()
	os.RemoveAll(sim.TmpRoot())
	os.Exit(code)
}

type node struct {
	b         *types.Block
	parent    *node
	id        int
	delivered bool
}

func (n *node) isAncestorOrSelf(of *node) bool {
	for x := of; x != nil; x = x.parent {
		if x == n {
			return true
		}
	}
	return false
}

type machine struct {
	w       *sim.World
	f, v    *sim.Node
	byHash  map[common.Hash]*node
	nodes   []*node
	stable  *node
	history []string
	fixed   map[uint32]common.Hash // height -> hash once stable
	stats   map[string]int
}

func (m *machine) add(b *types.Block, parent *node) *node {
	n := &node{b: b, parent: parent, id: len(m.nodes)}
	m.nodes = append(m.nodes, n)
	m.byHash[b.Hash()] = n
	return n
}

// distinctSigners recovers, with the harness's own bookkeeping of node ids, who signed block b (header + confirms).
func (m *machine) distinctSigners(b *types.Block) map[int]bool {
	res := map[int]bool{}
	h := b.Hash()
	sigs := [][]byte{b.Header.SignData}
	for _, c := range b.Confirms {
		cc := c
		sigs = append(sigs, cc[:])
	}
	for _, sig := range sigs {
		pub, err := crypto.Ecrecover(h[:], sig)
		if err != nil || len(pub) != 65 {
			continue
		}
		for i, d := range m.w.Deputies {
			if string(pub[1:]) == string(d.NodeID) {
				res[i] = true
			}
		}
	}
	return res
}

func (m *machine) check(t *rapid.T, what string) {
	st := m.v.Stable()
	sn := m.byHash[st.Hash()]
	if sn == nil {
		t.Fatalf("%s: the stable block %d %s is not a block the harness produced\nhistory: %v", what, st.Height(), st.Hash().Hex()[:10], m.history)
	}
	if sn != m.stable {
		if st.Height() <= m.stable.b.Height() {
			t.Fatalf("%s: stable moved from height %d to height %d\nhistory: %v", what, m.stable.b.Height(), st.Height(), m.history)
		}
		if !m.stable.isAncestorOrSelf(sn) {
			t.Fatalf("%s: the new stable block b%d is not a descendant of the previous stable block b%d\nhistory: %v", what, sn.id, m.stable.id, m.history)
		}
		// the promoted block carries at least ceil(2n/3) distinct deputies
		n := len(m.w.Deputies)
		need := (2*n + 2) / 3
		full, err := m.v.DB.GetBlockByHash(st.Hash())
		if err != nil {
			t.Fatalf("%s: the stable block cannot be loaded: %v", what, err)
		}
		signers := m.distinctSigners(full)
		if len(signers) < need {
			detail := ""
			hh := full.Hash()
			for i, c := range full.Confirms {
				cc := c
				who := "nobody"
				if pub, err := crypto.Ecrecover(hh[:], cc[:]); err == nil {
					who = "unknown key"
					for k, d := range m.w.Deputies {
						if string(pub[1:]) == string(d.NodeID) {
							who = fmt.Sprintf("d%d", k)
						}
					}
				}
				detail += fmt.Sprintf(" confirm%d=%s(%x..)", i, who, cc[32:36])
			}
			t.Fatalf("%s: block b%d (height %d) became stable with %d distinct deputy signers %v, %d of %d are needed (it carries %d confirms:%s)\nhistory: %v",
				what, sn.id, st.Height(), len(signers), keys(signers), need, n, len(full.Confirms), detail, m.history)
		}
		m.stable = sn
		m.stats["promotions"]++
	}
	// stable blocks by height: the harness's ancestor chain, and never replaced
	for x := sn; x != nil; x = x.parent {
		h := x.b.Height()
		got := m.v.BC.GetBlockByHeight(h)
		if got == nil || got.Hash() != x.b.Hash() {
			t.Fatalf("%s: block at stable height %d is %v, the stable chain has b%d there\nhistory: %v", what, h, got, x.id, m.history)
		}
		if old, ok := m.fixed[h]; ok && old != x.b.Hash() {
			t.Fatalf("%s: the stable block at height %d was replaced\nhistory: %v", what, h, m.history)
		}
		m.fixed[h] = x.b.Hash()
	}
	// head: the stable block or one of its descendants
	cur := m.v.Current()
	cn := m.byHash[cur.Hash()]
	if cn == nil || !sn.isAncestorOrSelf(cn) {
		t.Fatalf("%s: the current head %d %s is not a descendant of the stable block b%d\nhistory: %v", what, cur.Height(), cur.Hash().Hex()[:10], sn.id, m.history)
	}
}

func keys(m map[int]bool) []int {
	var r []int
	for k := range m {
		r = append(r, k)
	}
	sort.Ints(r)
	return r
}

// genSig draws one confirm signature of an adversarial kind for block b.
func (m *machine) genSig(t *rapid.T, b *types.Block, made map[int]types.SignData) (types.SignData, string) {
	kind := rapid.SampledFrom([]string{"valid", "valid", "valid", "repeat", "reencoded", "own-reencoded", "outsider", "miner", "garbage", "other-block"}).Draw(t, "sigKind")
	d := rapid.IntRange(0, len(m.w.Deputies)-1).Draw(t, "signer")
	switch kind {
	case "own-reencoded": // the confirm the node under test itself gives (or gave before a restart) for this block, in its other encoding
		if m.v.Self != nil {
			s := sim.ConfirmAs(b, m.v.Self)
			return types.BytesToSignData(sim.Malleate(s[:])), "own-reencoded"
		}
		s := sim.ConfirmAs(b, m.w.Deputies[d])
		made[d] = s
		return s, fmt.Sprintf("d%d", d)
	case "valid":
		s := sim.ConfirmAs(b, m.w.Deputies[d])
		made[d] = s
		return s, fmt.Sprintf("d%d", d)
	case "repeat", "reencoded":
		var ks []int
		for k := range made {
			ks = append(ks, k)
		}
		if len(ks) == 0 {
			s := sim.ConfirmAs(b, m.w.Deputies[d])
			made[d] = s
			return s, fmt.Sprintf("d%d", d)
		}
		sort.Ints(ks)
		k := ks[rapid.IntRange(0, len(ks)-1).Draw(t, "copyOf")]
		if kind == "repeat" {
			return made[k], fmt.Sprintf("d%d-again", k)
		}
		old := made[k]
		return types.BytesToSignData(sim.Malleate(old[:])), fmt.Sprintf("d%d-reencoded", k)
	case "outsider":
		return sim.ConfirmAs(b, m.w.Outsider), "outsider"
	case "miner":
		miner := m.w.DeputyByMiner(b.MinerAddress())
		if miner == nil { // the genesis block has no deputy as miner
			miner = m.w.Deputies[d]
		}
		s := sim.ConfirmAs(b, miner)
		if rapid.Bool().Draw(t, "minerReencoded") {
			return types.BytesToSignData(sim.Malleate(s[:])), "miner-reencoded"
		}
		return s, "miner"
	case "garbage":
		var s types.SignData
		copy(s[:], rapid.SliceOfN(rapid.Byte(), 65, 65).Draw(t, "garbage"))
		return s, "garbage"
	default:
		other := m.nodes[rapid.IntRange(0, len(m.nodes)-1).Draw(t, "otherBlock")].b
		return sim.ConfirmAs(other, m.w.Deputies[d]), fmt.Sprintf("d%d-for-b%d", d, m.byHash[other.Hash()].id)
	}
}

func TestC03Finality(t *testing.T) {
	rapid.Check(t, func(rt *rapid.T) {
		sim.ResetGlobals()
		d := rapid.IntRange(1, 7).Draw(rt, "deputies")
		w := sim.NewWorld("w", d, 2)
		f := sim.NewNode(w, w.Deputies[0], 17)
		defer f.Destroy()
		// the node under test is a bystander or one of the deputies (then it signs confirms itself)
		var self *sim.Deputy
		if k := rapid.IntRange(-1, d-1).Draw(rt, "selfDeputy"); k >= 0 {
			self = w.Deputies[k]
		}
		v := sim.NewNode(w, self, 17)
		defer v.Destroy()
		m := &machine{w: w, f: f, v: v, byHash: map[common.Hash]*node{}, fixed: map[uint32]common.Hash{}, stats: map[string]int{}}
		m.stable = m.add(f.Genesis, nil)
		m.stable.delivered = true
		made := map[common.Hash]map[int]types.SignData{}
		adversarial, forked := false, false

		rt.Repeat(map[string]func(*rapid.T){
			"mine": func(t *rapid.T) {
				// any block of the tree the factory still holds as live
				var cands []*node
				fst := m.byHash[f.Stable().Hash()]
				for _, n := range m.nodes {
					if fst.isAncestorOrSelf(n) {
						cands = append(cands, n)
					}
				}
				p := cands[rapid.IntRange(0, len(cands)-1).Draw(t, "parent")]
				h := p.b.Height() + 1
				cnt := f.DM.GetDeputiesCount(h)
				rank := rapid.IntRange(0, cnt-1).Draw(t, "rank")
				when := f.TimeFor(p.b, rank, rapid.IntRange(0, 1).Draw(t, "loops"), uint32(rapid.IntRange(0, 9).Draw(t, "off")))
				var txs types.Transactions
				if rapid.Bool().Draw(t, "withTx") {
					txs = append(txs, sim.Transfer(w.Founder, w.Users[0].Addr, sim.Lemo(int64(1+len(m.nodes))), uint64(when)+600))
				}
				b, _, err := f.MineAs(f.DeputyAt(h, rank), p.b, when, txs)
				if err != nil {
					t.Skip("factory cannot mine there: " + err.Error())
				}
				if _, dup := m.byHash[b.Hash()]; dup {
					t.Skip("same block again")
				}
				n := m.add(b, p)
				for _, o := range m.nodes {
					if o != n && o.parent == p {
						forked = true
					}
				}
				m.history = append(m.history, fmt.Sprintf("b%d=mine(parent b%d, height %d, rank %d, t+%d)", n.id, p.id, h, rank, when-sim.T0))
			},
			"deliver": func(t *rapid.T) {
				n := m.nodes[rapid.IntRange(0, len(m.nodes)-1).Draw(t, "block")]
				blk := sim.CloneBlock(n.b)
				note := ""
				if k := rapid.IntRange(0, 3).Draw(t, "carriedConfirms"); k > 0 {
					if made[n.b.Hash()] == nil {
						made[n.b.Hash()] = map[int]types.SignData{}
					}
					for i := 0; i < k; i++ {
						s, what := m.genSig(t, n.b, made[n.b.Hash()])
						blk.Confirms = append(blk.Confirms, s)
						note += " " + what
						if what != "" && (len(what) > 3 || what[0] != 'd') {
							adversarial = true
						}
					}
				}
				v.BecomeSelf()
				err := v.BC.InsertBlock(blk)
				n.delivered = n.delivered || err == nil
				m.history = append(m.history, fmt.Sprintf("deliver(b%d%s)=%v", n.id, noteOr(note), err))
				m.check(t, "after deliver")
			},
			"confirm": func(t *rapid.T) {
				n := m.nodes[rapid.IntRange(0, len(m.nodes)-1).Draw(t, "block")]
				if made[n.b.Hash()] == nil {
					made[n.b.Hash()] = map[int]types.SignData{}
				}
				k := rapid.IntRange(1, 4).Draw(t, "nsigs")
				var sigs []types.SignData
				note := ""
				for i := 0; i < k; i++ {
					s, what := m.genSig(t, n.b, made[n.b.Hash()])
					sigs = append(sigs, s)
					note += " " + what
					if len(what) > 3 || what[0] != 'd' {
						adversarial = true
					}
				}
				height, hash := n.b.Height(), n.b.Hash()
				switch rapid.IntRange(0, 9).Draw(t, "packet") {
				case 0:
					height++
					note += " (wrong height)"
					adversarial = true
				case 1:
					hash[0] ^= 1
					note += " (unknown hash)"
					adversarial = true
				}
				v.BecomeSelf()
				v.BC.InsertConfirms(height, hash, sigs)
				m.history = append(m.history, fmt.Sprintf("confirm(b%d:%s)", n.id, note))
				m.check(t, "after confirm")
			},
		})
		m.check(rt, "final")
		nontrivial := m.stats["promotions"] > 0 && (forked || adversarial)
		cls := []string{fmt.Sprintf("deputies%d", d), fmt.Sprintf("promotions%d", min(m.stats["promotions"], 3)), fmt.Sprintf("forked=%v", forked), fmt.Sprintf("adversarial=%v", adversarial), fmt.Sprintf("self-deputy=%v", self != nil)}
		sim.Case("finality", sim.HashOf(m.history), nontrivial, cls, func() interface{} { return m.history })
	})
}

func noteOr(s string) string {
	if s == "" {
		return ""
	}
	return " carrying" + s
}
