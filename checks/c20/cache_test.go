// C20 — sync converges. Unit (i): the out-of-order block cache and the early-confirm cache against sorted multimap models.
package c20

import (
	"fmt"
	"os"
	"sort"
	"testing"

	"verif/sim"

	"github.com/LemoFoundationLtd/lemochain-core/chain/types"
	"github.com/LemoFoundationLtd/lemochain-core/common"
	"github.com/LemoFoundationLtd/lemochain-core/network"
	"pgregory.net/rapid"
)

func TestMain(m *testing.M) {
	sim.Quiet()
	code := m.Run()
	os.RemoveAll(sim.TmpRoot())
	os.Exit(code)
}

func mkBlock(height uint32, variant int) *types.Block {
	return &types.Block{Header: &types.Header{Height: height, Extra: fmt.Sprintf("v%d", variant), Time: uint32(variant)}}
}

func TestC20BlockCache(t *testing.T) {
	rapid.Check(t, func(rt *rapid.T) {
		c := network.NewBlockCache()
		model := map[common.Hash]*types.Block{}
		var ops []string
		removedByIterate := false
		gapInsert := false

		heights := func() []uint32 {
			set := map[uint32]bool{}
			for _, b := range model {
				set[b.Height()] = true
			}
			hs := make([]uint32, 0, len(set))
			for h := range set {
				hs = append(hs, h)
			}
			sort.Slice(hs, func(i, j int) bool { return hs[i] < hs[j] })
			return hs
		}

		verify := func(t *rapid.T) {
			if got := c.Size(); got != len(model) {
				t.Fatalf("Size() = %d, model holds %d blocks\nops: %v", got, len(model), ops)
			}
			var order []uint32
			seen := map[common.Hash]int{}
			c.Iterate(func(b *types.Block) bool {
				order = append(order, b.Height())
				seen[b.Hash()]++
				return false
			})
			for i := 1; i < len(order); i++ {
				if order[i] < order[i-1] {
					t.Fatalf("Iterate visits heights out of order: %v\nops: %v", order, ops)
				}
			}
			for h, n := range seen {
				if model[h] == nil {
					t.Fatalf("cache holds a block the model does not (height order %v)\nops: %v", order, ops)
				}
				if n != 1 {
					t.Fatalf("Iterate visits a block %d times: %v\nops: %v", n, order, ops)
				}
			}
			for h, b := range model {
				if seen[h] == 0 {
					t.Fatalf("cached block at height %d is lost (iteration: %v)\nops: %v", b.Height(), order, ops)
				}
			}
			if hs := heights(); len(hs) > 0 {
				fh := c.FirstHeight()
				if fh > hs[0] || (!removedByIterate && fh != hs[0]) {
					t.Fatalf("FirstHeight() = %d, lowest cached height is %d\nops: %v", fh, hs[0], ops)
				}
			}
		}

		rt.Repeat(map[string]func(*rapid.T){
			"add": func(t *rapid.T) {
				h := rapid.Uint32Range(1, 12).Draw(t, "height")
				b := mkBlock(h, rapid.IntRange(0, 2).Draw(t, "variant"))
				hs := heights()
				if len(hs) >= 2 && h > hs[0] && h < hs[len(hs)-1] {
					present := false
					for _, x := range hs {
						if x == h {
							present = true
						}
					}
					if !present {
						gapInsert = true
					}
				}
				c.Add(b)
				model[b.Hash()] = b
				ops = append(ops, fmt.Sprintf("add(%d/v%s)", h, b.Extra()[1:]))
			},
			"iterateRemove": func(t *rapid.T) {
				// what the drain timer does: take out the blocks whose parent is known (here: a generated subset)
				mod := rapid.IntRange(1, 3).Draw(t, "mod")
				c.Iterate(func(b *types.Block) bool {
					if int(b.Height()+b.Time())%mod == 0 {
						delete(model, b.Hash())
						removedByIterate = true
						return true
					}
					return false
				})
				ops = append(ops, fmt.Sprintf("iterateRemove(mod %d)", mod))
			},
			"clear": func(t *rapid.T) {
				h := rapid.Uint32Range(0, 13).Draw(t, "upto")
				c.Clear(h)
				for k, b := range model {
					if b.Height() <= h {
						delete(model, k)
					}
				}
				ops = append(ops, fmt.Sprintf("clear(%d)", h))
			},
			"remove": func(t *rapid.T) {
				b := mkBlock(rapid.Uint32Range(1, 12).Draw(t, "height"), rapid.IntRange(0, 2).Draw(t, "variant"))
				c.Remove(b)
				delete(model, b.Hash())
				ops = append(ops, fmt.Sprintf("remove(%d/v%s)", b.Height(), b.Extra()[1:]))
			},
			"": verify,
		})
		sim.Case("blockcache", sim.HashOf(ops), gapInsert, []string{fmt.Sprintf("gap-insert=%v", gapInsert), fmt.Sprintf("iterate-removal=%v", removedByIterate)}, func() interface{} { return ops })
	})
}

// TestC20BlockCacheOverflow: more than 10240 distinct heights (a peer can send them): the cache must not block.
func TestC20BlockCacheOverflow(t *testing.T) {
	done := make(chan struct{})
	go func() {
		c := network.NewBlockCache()
		cc := network.NewConfirmCache()
		for h := uint32(1); h <= 10300; h++ {
			c.Add(mkBlock(h, 0))
			cc.Push(&network.BlockConfirmData{Height: h})
		}
		if c.Size() > 10241 || cc.Size() > 10241 {
			t.Errorf("caches grew past their bound: %d blocks, %d confirms", c.Size(), cc.Size())
		}
		close(done)
	}()
	select {
	case <-done:
	case <-timeAfter(20):
		t.Fatalf("adding 10300 distinct heights blocks forever (self dead-lock in the cache)")
	}
	sim.Bulk("cache-overflow", 10300, 2, map[string]int{"distinct-heights": 10300}, []interface{}{"heights 1..10300 pushed into BlockCache and ConfirmCache"}, false)
}

func TestC20ConfirmCache(t *testing.T) {
	rapid.Check(t, func(rt *rapid.T) {
		c := network.NewConfirmCache()
		type key struct {
			h    uint32
			hash common.Hash
		}
		model := map[key][]byte{}
		var ops []string
		early := false
		rt.Repeat(map[string]func(*rapid.T){
			"push": func(t *rapid.T) {
				h := rapid.Uint32Range(1, 8).Draw(t, "height")
				hash := common.BytesToHash([]byte{byte(rapid.IntRange(1, 3).Draw(t, "hash"))})
				tag := rapid.Byte().Draw(t, "sig")
				var sig types.SignData
				sig[0] = tag
				c.Push(&network.BlockConfirmData{Height: h, Hash: hash, SignInfo: sig})
				model[key{h, hash}] = append(model[key{h, hash}], tag)
				ops = append(ops, fmt.Sprintf("push(%d,%x,%d)", h, hash[31], tag))
				early = true
			},
			"pop": func(t *rapid.T) {
				h := rapid.Uint32Range(1, 8).Draw(t, "height")
				hash := common.BytesToHash([]byte{byte(rapid.IntRange(1, 3).Draw(t, "hash"))})
				got := c.Pop(h, hash)
				want := model[key{h, hash}]
				if len(got) != len(want) {
					t.Fatalf("Pop(%d,%x) returns %d confirms, %d were pushed\nops: %v", h, hash[31], len(got), len(want), ops)
				}
				for i := range got {
					if got[i].SignInfo[0] != want[i] || got[i].Height != h || got[i].Hash != hash {
						t.Fatalf("Pop(%d,%x) returns other confirms than were pushed\nops: %v", h, hash[31], ops)
					}
				}
				delete(model, key{h, hash})
				ops = append(ops, fmt.Sprintf("pop(%d,%x)", h, hash[31]))
			},
			"clear": func(t *rapid.T) {
				h := rapid.Uint32Range(0, 9).Draw(t, "upto")
				c.Clear(h)
				for k := range model {
					if k.h <= h {
						delete(model, k)
					}
				}
				ops = append(ops, fmt.Sprintf("clear(%d)", h))
			},
			"": func(t *rapid.T) {
				n := 0
				for _, v := range model {
					n += len(v)
				}
				if c.Size() != n {
					t.Fatalf("Size() = %d, model %d\nops: %v", c.Size(), n, ops)
				}
			},
		})
		sim.Case("confirmcache", sim.HashOf(ops), early && len(ops) > 3, nil, func() interface{} { return ops })
	})
}
