// C20 — unit (iii): transaction batches (TxsMsg) delivered to the real ProtocolManager: every valid transaction of every
// batch is in the pool exactly once afterwards, whatever the batches' overlap, order and decoys.
package c20

import (
	"fmt"
	"sort"
	"strings"
	"testing"
	"time"

	"verif/sim"

	"github.com/LemoFoundationLtd/lemochain-core/chain/types"
	"github.com/LemoFoundationLtd/lemochain-core/common"
	"github.com/LemoFoundationLtd/lemochain-core/network"
	"pgregory.net/rapid"
)

func TestC20TxBatch(t *testing.T) {
	rapid.Check(t, func(rt *rapid.T) {
		sim.ResetGlobals()
		w := sim.NewWorld("w", 2, 4)
		r := sim.NewNode(w, nil, 17)
		defer r.Destroy()
		nn := r.StartNet()
		defer nn.StopNet()
		npeers := rapid.IntRange(1, 2).Draw(rt, "peers")
		peers := make([]*sim.ScriptPeer, npeers)
		for i := range peers {
			peers[i] = sim.NewScriptPeer(fmt.Sprintf("c20tx-%d", i))
			if err := nn.Connect(peers[i], network.LatestStatus{}); err != nil {
				rt.Fatalf("harness: %v", err)
			}
			defer peers[i].Close()
		}
		now := uint64(time.Now().Unix())
		// the material: valid transactions and decoys the node must not admit
		type item struct {
			tx    *types.Transaction
			valid bool
			note  string
		}
		var pool []item
		nvalid := rapid.IntRange(1, 10).Draw(rt, "valid")
		for i := 0; i < nvalid; i++ {
			from := w.Users[rapid.IntRange(0, len(w.Users)-1).Draw(rt, "from")]
			exp := now + uint64(rapid.IntRange(120, 1700).Draw(rt, "exp"))
			var tx *types.Transaction
			switch rapid.IntRange(0, 5).Draw(rt, "shape") {
			case 0:
				sub := sim.Transfer(from, w.Founder.Addr, sim.Lemo(int64(1000+i)), exp)
				tx = sim.Box(w.Founder, types.Transactions{sub}, 200000, exp)
			case 1:
				tx = sim.CreateContract(from, sim.Lemo(0), []byte{0x60, byte(i), 0x60, 0, 0x55, 0}, 200000, exp)
			default:
				tx = sim.Transfer(from, w.Users[(i+1)%len(w.Users)].Addr, sim.Lemo(int64(i+1)), exp)
			}
			pool = append(pool, item{tx, true, fmt.Sprintf("v%d", i)})
		}
		for i, nd := 0, rapid.IntRange(0, 4).Draw(rt, "decoys"); i < nd; i++ {
			from := w.Users[i%len(w.Users)]
			to := w.Founder.Addr
			switch rapid.IntRange(0, 2).Draw(rt, "decoy") {
			case 0:
				pool = append(pool, item{sim.Transfer(from, to, sim.Lemo(int64(50+i)), now-uint64(rapid.IntRange(30, 4000).Draw(rt, "ago"))), false, "expired"})
			case 1:
				pool = append(pool, item{sim.Transfer(from, to, sim.Lemo(int64(50+i)), now+1800+uint64(rapid.IntRange(60, 4000).Draw(rt, "ahead"))), false, "tooFar"})
			case 2:
				tx := sim.Sign(sim.TxSpec{From: from.Addr, To: &to, Amount: sim.Lemo(int64(50 + i)), GasLimit: 30000, Exp: now + 600, ChainID: sim.ChainID + 1}.Build(), from.Key)
				pool = append(pool, item{tx, false, "otherChain"})
			}
		}
		// batches: any selection with repetition, overlapping between batches
		nb := rapid.IntRange(1, 4).Draw(rt, "batches")
		var hist []string
		sent := map[common.Hash]bool{}
		overlapFirst, maxBatch := false, 0
		for b := 0; b < nb; b++ {
			k := rapid.IntRange(1, 8).Draw(rt, "batchLen")
			var txs types.Transactions
			var names []string
			for j := 0; j < k; j++ {
				it := pool[rapid.IntRange(0, len(pool)-1).Draw(rt, "pick")]
				if it.valid && sent[it.tx.Hash()] && j < k-1 {
					overlapFirst = true // a transaction the node has already, followed by others
				}
				txs = append(txs, sim.CloneTx(it.tx))
				names = append(names, it.note)
			}
			for _, tx := range txs {
				sent[tx.Hash()] = true
			}
			if len(txs) > maxBatch {
				maxBatch = len(txs)
			}
			p := peers[rapid.IntRange(0, npeers-1).Draw(rt, "viaPeer")]
			p.SendTxs(txs)
			hist = append(hist, "["+strings.Join(names, " ")+"]")
			if rapid.Bool().Draw(rt, "settleBetween") {
				waitFor(5*time.Second, func() bool { return p.Pending() == 0 })
				time.Sleep(20 * time.Millisecond)
			}
		}
		want := map[common.Hash]string{}
		for _, it := range pool {
			if it.valid && sent[it.tx.Hash()] {
				want[it.tx.Hash()] = it.note
			}
		}
		content := func() map[common.Hash]int {
			m := map[common.Hash]int{}
			for _, tx := range r.Pool.GetTxs(uint32(now), 100000) {
				m[tx.Hash()]++
			}
			return m
		}
		ok := func() bool {
			got := content()
			if len(got) != len(want) {
				return false
			}
			for h := range want {
				if got[h] != 1 {
					return false
				}
			}
			return true
		}
		if !waitFor(5*time.Second, ok) {
			// the admission goroutines are pure in-memory work: 3 more seconds without any change is quiescence
			last := fmt.Sprint(content())
			for same := 0; same < 6; {
				time.Sleep(500 * time.Millisecond)
				if now := fmt.Sprint(content()); now == last {
					same++
				} else {
					same, last = 0, now
				}
			}
			if !ok() {
				got := content()
				var lines []string
				for _, it := range pool {
					if sent[it.tx.Hash()] {
						lines = append(lines, fmt.Sprintf("%s(%s): in the pool %d times, want %d", it.note, it.tx.Hash().Hex()[:8], got[it.tx.Hash()], map[bool]int{true: 1, false: 0}[it.valid]))
					}
				}
				sort.Strings(lines)
				rt.Fatalf("after the batches %s the pool is wrong:\n  %s", strings.Join(hist, " "), strings.Join(lines, "\n  "))
			}
		}
		cls := []string{fmt.Sprintf("batches%d", nb), fmt.Sprintf("maxBatch>=%d", maxBatch/2*2), fmt.Sprintf("overlapFirst=%v", overlapFirst), fmt.Sprintf("peers%d", npeers)}
		sim.Case("txbatch", sim.HashOf(strings.Join(hist, " ")), maxBatch >= 2, cls, func() interface{} { return strings.Join(hist, " ") })
	})
}
