// C20 — unit (ii): block and confirm messages delivered in any order, with duplicates, to the real ProtocolManager of a
// real node by scripted peers; the node must end exactly like a node that got the same blocks and confirms in order.
package c20

import (
	"fmt"
	"strings"
	"sync"
	"testing"
	"time"

	"verif/sim"

	"github.com/LemoFoundationLtd/lemochain-core/chain/types"
	"github.com/LemoFoundationLtd/lemochain-core/common"
	"github.com/LemoFoundationLtd/lemochain-core/common/rlp"
	"github.com/LemoFoundationLtd/lemochain-core/network"
	"github.com/LemoFoundationLtd/lemochain-core/network/p2p"
	"pgregory.net/rapid"
)

type netMsg struct {
	kind   string // "blocks" | "confirm"
	blocks []int  // indices into the segment
	signer int    // deputy index for a confirm
	peer   int
}

func (m netMsg) String() string {
	if m.kind == "blocks" {
		return fmt.Sprintf("p%d:blocks%v", m.peer, m.blocks)
	}
	return fmt.Sprintf("p%d:confirm(b%d by d%d)", m.peer, m.blocks[0], m.signer)
}

func waitFor(limit time.Duration, cond func() bool) bool {
	deadline := time.Now().Add(limit)
	for {
		if cond() {
			return true
		}
		if time.Now().After(deadline) {
			return false
		}
		time.Sleep(2 * time.Millisecond)
	}
}

func TestC20Sync(t *testing.T) {
	rapid.Check(t, func(rt *rapid.T) {
		d := rapid.IntRange(2, 5).Draw(rt, "deputies")
		s := sim.NewScenario(d, sim.Weights{Transfer: 5, Contract: 1, Vote: 1})
		defer s.Close()
		n := rapid.IntRange(2, 6).Draw(rt, "blocks")
		for i := 0; i < n; i++ {
			parent := s.Head()
			dep, when := s.NextSlot(rt, parent)
			b, verdict := s.MineAndValidate(dep, parent, when, s.GenBlockTxs(rt, parent, when, rapid.IntRange(0, 2).Draw(rt, "ntxs")))
			if b == nil || verdict != nil {
				rt.Fatalf("harness: segment block: %v", verdict)
			}
		}
		seg := s.Blocks
		wire := make([][]byte, len(seg))
		for i, b := range seg {
			wire[i] = sim.EncodeBlock(b)
		}
		// which deputies confirm which block (the miner's own signature is in the header)
		confirms := make([][]int, len(seg))
		for i, b := range seg {
			for di, dep := range s.W.Deputies {
				if dep.Miner.Addr != b.MinerAddress() && rapid.IntRange(0, 3).Draw(rt, fmt.Sprintf("confirm%d.%d", i, di)) != 0 {
					confirms[i] = append(confirms[i], di)
				}
			}
		}
		// reference: everything in order
		ref := sim.NewNode(s.W, nil, 17)
		for i := range seg {
			if err := ref.Insert(sim.DecodeBlock(wire[i])); err != nil {
				ref.Destroy()
				rt.Fatalf("harness: reference node rejects block %d: %v", i, err)
			}
			for _, di := range confirms[i] {
				ref.BC.InsertConfirms(seg[i].Height(), seg[i].Hash(), []types.SignData{sim.ConfirmAs(seg[i], s.W.Deputies[di])})
			}
		}
		wantCur, wantSta := ref.Current().Hash(), ref.Stable().Hash()
		wantStaH := ref.Stable().Height()
		ref.Destroy()

		// the schedule
		npeers := rapid.IntRange(1, 2).Draw(rt, "peers")
		var msgs []netMsg
		for i := 0; i < len(seg); {
			k := 1
			if rapid.IntRange(0, 3).Draw(rt, "batch") == 0 {
				k = rapid.IntRange(2, 3).Draw(rt, "batchLen")
			}
			var idx []int
			for j := i; j < i+k && j < len(seg); j++ {
				idx = append(idx, j)
			}
			if len(idx) > 1 && rapid.Bool().Draw(rt, "batchReversed") {
				for a, b := 0, len(idx)-1; a < b; a, b = a+1, b-1 {
					idx[a], idx[b] = idx[b], idx[a]
				}
			}
			msgs = append(msgs, netMsg{kind: "blocks", blocks: idx})
			i += len(idx)
		}
		for i := range seg {
			for _, di := range confirms[i] {
				msgs = append(msgs, netMsg{kind: "confirm", blocks: []int{i}, signer: di})
			}
		}
		// fetch mode: some blocks are never pushed; the node has to ask for them (it requests the parent of every block it
		// parks) and the peers answer block requests from the segment
		fetch := rapid.IntRange(0, 3).Draw(rt, "fetchMode") == 0
		withheld := 0
		if fetch {
			var kept []netMsg
			for _, m := range msgs {
				tip := false
				for _, i := range m.blocks {
					tip = tip || i == len(seg)-1
				}
				if m.kind == "blocks" && !tip && rapid.Bool().Draw(rt, "withhold") {
					withheld += len(m.blocks)
					continue
				}
				kept = append(kept, m)
			}
			msgs = kept
		}
		for i, cnt := 0, rapid.IntRange(0, 4).Draw(rt, "duplicates"); i < cnt; i++ {
			msgs = append(msgs, msgs[rapid.IntRange(0, len(msgs)-1).Draw(rt, "dupOf")])
		}
		order := rapid.Permutation(msgs).Draw(rt, "order")
		for i := range order {
			order[i].peer = rapid.IntRange(0, npeers-1).Draw(rt, "viaPeer")
		}

		// the node under test
		r := sim.NewNode(s.W, nil, 17)
		defer r.Destroy()
		nn := r.StartNet()
		defer nn.StopNet()
		peers := make([]*sim.ScriptPeer, npeers)
		for i := range peers {
			peers[i] = sim.NewScriptPeer(fmt.Sprintf("c20-%d", i))
			if err := nn.Connect(peers[i], network.LatestStatus{}); err != nil {
				rt.Fatalf("harness: %v", err)
			}
			defer peers[i].Close()
		}
		delivered := map[int]bool{}
		var dmu sync.Mutex
		if fetch {
			for _, p := range peers {
				p := p
				p.Serve = func(code p2p.MsgCode, content []byte) {
					if code != p2p.GetBlocksMsg {
						return
					}
					var q network.GetBlocksData
					if rlp.DecodeBytes(content, &q) != nil || q.To-q.From > 20 {
						return
					}
					var bs []*types.Block
					dmu.Lock()
					for i, b := range seg {
						if b.Height() >= q.From && b.Height() <= q.To {
							bs = append(bs, sim.DecodeBlock(wire[i]))
							delivered[i] = true
						}
					}
					dmu.Unlock()
					if len(bs) > 0 {
						p.SendBlocks(bs...)
					}
				}
			}
		}
		cached := func() map[common.Hash]bool {
			m := map[common.Hash]bool{}
			for _, h := range nn.PM.VerifCachedBlocks() {
				m[h] = true
			}
			return m
		}
		// settled: no delivered block is on its way from the cache into the chain (the product inserts those on a timer
		// in a goroutine; a confirm that races with that insertion is outside what this unit decides)
		settled := func() bool {
			for _, p := range peers {
				if p.Pending() > 0 {
					return false
				}
			}
			c := cached()
			sta := r.Stable().Height()
			dmu.Lock()
			defer dmu.Unlock()
			for i := range delivered {
				b := seg[i]
				if b.Height() <= sta || r.BC.HasBlock(b.Hash()) {
					continue
				}
				if c[b.Hash()] && !r.BC.HasBlock(b.ParentHash()) {
					continue
				}
				return false
			}
			return true
		}
		var hist []string
		earlyConfirm, inversion := false, false
		maxDelivered := -1
		for _, m := range order {
			waitFor(20*time.Second, settled)
			p := peers[m.peer]
			switch m.kind {
			case "blocks":
				var bs []*types.Block
				for _, i := range m.blocks {
					bs = append(bs, sim.DecodeBlock(wire[i]))
					if i+2 <= maxDelivered {
						inversion = true
					}
				}
				dmu.Lock()
				for _, i := range m.blocks {
					delivered[i] = true
					if i > maxDelivered {
						maxDelivered = i
					}
				}
				dmu.Unlock()
				p.SendBlocks(bs...)
			case "confirm":
				i := m.blocks[0]
				if !r.BC.HasBlock(seg[i].Hash()) && seg[i].Height() > r.Stable().Height() {
					earlyConfirm = true
				}
				sig := sim.ConfirmAs(seg[i], s.W.Deputies[m.signer])
				p.SendConfirm(seg[i], sig)
				// handled = stored with the block, parked in the confirm cache, or moot
				before := nn.PM.VerifCachedConfirms()
				waitFor(10*time.Second, func() bool {
					if p.Pending() > 0 {
						return false
					}
					if nn.PM.VerifCachedConfirms() > before || seg[i].Height() <= r.Stable().Height() {
						return true
					}
					if b := r.BC.GetBlockByHash(seg[i].Hash()); b != nil {
						return b.IsConfirmExist(sig)
					}
					return false
				})
			}
			hist = append(hist, m.String())
		}
		converged := func() bool {
			return r.Current().Hash() == wantCur && r.Stable().Hash() == wantSta
		}
		if !waitFor(time.Duration(len(seg)+4)*time.Second, converged) {
			// quiescent and different? (the only time-driven activity is the 500 ms cache timer)
			type snap struct {
				cur, sta     common.Hash
				blocks, cfms int
			}
			take := func() snap {
				return snap{r.Current().Hash(), r.Stable().Hash(), len(nn.PM.VerifCachedBlocks()), nn.PM.VerifCachedConfirms()}
			}
			last, same := take(), 0
			for i := 0; i < 60 && same < 8; i++ {
				time.Sleep(500 * time.Millisecond)
				now := take()
				if now == last {
					same++
				} else {
					same, last = 0, now
				}
			}
			if !converged() {
				if same < 8 {
					rt.Skip("inconclusive: node still changing after 30 s")
				}
				rt.Fatalf("the node does not converge: current %d %s (in-order node: %s), stable %d %s (in-order node: %d %s); %d blocks left in the block cache, %d confirms left in the confirm cache\nsegment of %d blocks by %d deputies, confirms %v\ndelivery: %s",
					r.Current().Height(), r.Current().Hash().Hex()[:10], wantCur.Hex()[:10], r.Stable().Height(), r.Stable().Hash().Hex()[:10], wantStaH, wantSta.Hex()[:10],
					last.blocks, last.cfms, len(seg), d, confirms, strings.Join(hist, " "))
			}
		}
		// nothing may be left waiting for blocks that are all there
		if left := nn.PM.VerifCachedBlocks(); len(left) > 0 {
			waitFor(3*time.Second, func() bool { return len(nn.PM.VerifCachedBlocks()) == 0 })
		}
		cls := []string{fmt.Sprintf("blocks%d", len(seg)), fmt.Sprintf("peers%d", npeers), fmt.Sprintf("earlyConfirm=%v", earlyConfirm), fmt.Sprintf("inversion=%v", inversion), fmt.Sprintf("stable+%d", min(int(wantStaH), 4)), fmt.Sprintf("fetch=%v", fetch), fmt.Sprintf("withheld%d", min(withheld, 3))}
		sim.Case("sync", sim.HashOf(strings.Join(hist, " "), fetch, withheld), inversion || earlyConfirm || withheld > 0, cls, func() interface{} { return strings.Join(hist, " ") })
		_ = p2p.BlocksMsg
	})
}
