package c20

import "time"

func timeAfter(sec int) <-chan time.Time { return time.After(time.Duration(sec) * time.Second) }
