package scratch

import (
	"fmt"
	"testing"

	"verif/sim"

	"github.com/LemoFoundationLtd/lemochain-core/chain/types"
)

func show(n *sim.Node, tag string) {
	h := n.Current()
	s := ""
	for _, c := range n.BC.GetCandidatesTop(h.Hash()) {
		s += fmt.Sprintf("%s:%v ", c.GetAddress().Hex()[36:], c.GetTotal())
	}
	fmt.Printf("%s head=%d stable=%d top=[%s]\n", tag, h.Height(), n.Stable().Height(), s)
}

func TestDbg(t *testing.T) {
	s := sim.NewScenarioWith(sim.Options{Deputies: 1, Weights: sim.DefaultWeights, TermDuration: 8, InterimDuration: 2, DeputyCount: 1, MaxCandidates: 2,
		Funding: []int64{6000900, 5000400, 5000350, 5100000, 5000201, 5001000}})
	defer s.Close()
	u := s.W.Users
	step := func(txs ...*types.Transaction) {
		p := s.Head()
		b := s.F.MineNext(p, txs)
		fmt.Printf("block %d packaged %d/%d\n", b.Height(), len(b.Txs), len(txs))
		if err := s.V.Insert(b); err != nil {
			t.Fatalf("insert: %v", err)
		}
		show(s.F, " F")
		show(s.V, " V")
	}
	exp := uint64(sim.T0 + 1500)
	step(sim.Register(u[1], sim.Lemo(5000000), true, nil, exp))
	step()
	s.V.Reopen()
	show(s.V, " V after restart")
	step(sim.Register(u[4], sim.Lemo(5000000), true, nil, exp), sim.Vote(u[0], s.W.Deputies[0].Miner.Addr, exp))
	s.V.Reopen()
	show(s.V, " V after restart")
	step(sim.Register(u[1], sim.Lemo(0), false, nil, exp))
}
