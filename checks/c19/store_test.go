// C19 — unit "store": the write-ahead queue (FileQueue offset / pending-write index) against its own background writer.
// Client goroutines put values (single puts and batches, the same keys again and again) and read them back at once; the
// concurrent party is the product's asynchronous bitcask writer, which retires pending writes from the index. Every read
// must return the client's latest write of that key - the outcome of the one sequential order the client's requests have.
package c19

import (
	"bytes"
	"fmt"
	"os"
	"strings"
	"sync"
	"testing"

	"verif/sim"

	"github.com/LemoFoundationLtd/lemochain-core/store"
	"github.com/LemoFoundationLtd/lemochain-core/store/leveldb"
	"pgregory.net/rapid"
)

type storeOp struct {
	batch []int // key indices written in one batch (len 1: a single Put)
	read  int   // key index read back right afterwards (-1: none)
}

func TestC19Store(t *testing.T) {
	rapid.Check(t, func(rt *rapid.T) {
		sim.Quiet()
		dir := sim.NewDir()
		db := store.NewChainDataBase(dir)
		closed := false
		defer func() {
			if !closed {
				sim.CloseDB(db)
			}
			os.RemoveAll(dir)
		}()
		bdb := db.Beansdb
		nclients := rapid.IntRange(1, 3).Draw(rt, "clients")
		flags := []uint32{leveldb.ItemFlagKV, leveldb.ItemFlagCode, leveldb.ItemFlagAct, leveldb.ItemFlagTrie, leveldb.ItemFlagBlockHeight}
		type plan struct {
			flag  uint32
			keys  int
			short bool // 4-byte keys, like the height index
			ops   []storeOp
		}
		plans := make([]plan, nclients)
		rewrites := 0
		for c := range plans {
			p := plan{flag: flags[rapid.IntRange(0, len(flags)-1).Draw(rt, "flag")], keys: rapid.IntRange(1, 3).Draw(rt, "keys"), short: rapid.Bool().Draw(rt, "shortKeys")}
			for i, n := 0, rapid.IntRange(2, 25).Draw(rt, "ops"); i < n; i++ {
				op := storeOp{read: -1}
				for j, k := 0, rapid.SampledFrom([]int{1, 1, 2, 5, 12}).Draw(rt, "batchLen"); j < k; j++ {
					op.batch = append(op.batch, rapid.IntRange(0, p.keys-1).Draw(rt, "key"))
				}
				if rapid.IntRange(0, 3).Draw(rt, "readBack") != 0 {
					op.read = rapid.IntRange(0, p.keys-1).Draw(rt, "readKey")
				}
				p.ops = append(p.ops, op)
				rewrites += len(op.batch)
			}
			plans[c] = p
		}
		var wg sync.WaitGroup
		errs := make([]string, nclients)
		for c := range plans {
			wg.Add(1)
			go func(c int) {
				defer wg.Done()
				p := plans[c]
				last := map[int][]byte{}
				seq := 0
				var hist []string
				key := func(k int) []byte {
					if p.short {
						return []byte{byte(c), byte(k), 0, 7}
					}
					return []byte(fmt.Sprintf("client%d-key%d-%s", c, k, strings.Repeat("k", 20)))
				}
				for _, op := range p.ops {
					if len(op.batch) == 1 {
						seq++
						v := []byte(fmt.Sprintf("c%d-v%d-%s", c, seq, strings.Repeat("x", seq%7*30)))
						if err := bdb.Put(p.flag, key(op.batch[0]), v); err != nil {
							errs[c] = fmt.Sprintf("Put: %v", err)
							return
						}
						last[op.batch[0]] = v
						hist = append(hist, fmt.Sprintf("put(k%d,v%d)", op.batch[0], seq))
					} else {
						b := bdb.NewBatch()
						var names []string
						for _, k := range op.batch {
							seq++
							v := []byte(fmt.Sprintf("c%d-v%d-%s", c, seq, strings.Repeat("y", seq%5*40)))
							b.Put(p.flag, key(k), v)
							last[k] = v
							names = append(names, fmt.Sprintf("k%d=v%d", k, seq))
						}
						if err := bdb.Commit(b); err != nil {
							errs[c] = fmt.Sprintf("Commit: %v", err)
							return
						}
						hist = append(hist, "batch("+strings.Join(names, ",")+")")
					}
					if op.read >= 0 {
						got, err := bdb.Get(p.flag, key(op.read))
						want := last[op.read]
						if err != nil || !bytes.Equal(got, want) {
							short := func(b []byte) string {
								if len(b) > 12 {
									return string(b[:12])
								}
								return string(b)
							}
							errs[c] = fmt.Sprintf("client %d (flag %d): get(k%d) = %q (err %v) right after its own writes, the latest value of that key is %q\nhistory: %s", c, p.flag, op.read, short(got), err, short(want), strings.Join(hist, " "))
							return
						}
					}
				}
				// once more after everything of this client is written
				for k, want := range last {
					if got, err := bdb.Get(p.flag, key(k)); err != nil || !bytes.Equal(got, want) {
						errs[c] = fmt.Sprintf("client %d: final get(k%d) differs from the latest write (err %v)\nhistory: %s", c, k, err, strings.Join(hist, " "))
						return
					}
				}
			}(c)
		}
		wg.Wait()
		for _, e := range errs {
			if e != "" {
				rt.Fatalf("%s", e)
			}
		}
		sim.Case("store", sim.HashOf(fmt.Sprintf("%+v", plans)), rewrites >= 6, []string{fmt.Sprintf("clients%d", nclients), fmt.Sprintf("writes>=%d", rewrites/20*20)}, func() interface{} { return fmt.Sprintf("%+v", plans) })
	})
}
