// C19 — the consensus engine under concurrent blocks, confirms, mining and reads.
//
// One node holding a deputy key receives a generated mix of requests released together from a barrier (the threads a real
// node has: network inserts, confirm packets, the miner, RPC readers). Oracles: the outcome equals that of SOME sequential
// order of the same requests (the oracle is the real engine, run sequentially in every permutation on fresh copies);
// every signature the node stored or emitted is its own valid signature over the block it names, never two for one
// height on one parent; and (race build) no data race report.
package c19

import (
	"bytes"
	"fmt"
	"os"
	"runtime"
	"sort"
	"strings"
	"sync"
	"testing"
	"time"

	"verif/sim"

	"github.com/LemoFoundationLtd/lemochain-core/chain/types"
	"github.com/LemoFoundationLtd/lemochain-core/common"
	"github.com/LemoFoundationLtd/lemochain-core/common/crypto"
	"github.com/LemoFoundationLtd/lemochain-core/network"
	"github.com/LemoFoundationLtd/lemochain-core/store"
	"pgregory.net/rapid"
)

func TestMain(m *testing.M) {
	sim.Quiet()
	code := m.Run()
	os.RemoveAll(sim.TmpRoot())
	os.Exit(code)
}

// material is everything the factory prepares before the concurrent phase; nothing in it depends on the node under test.
type material struct {
	w        *sim.World
	self     *sim.Deputy
	prefix   [][]byte          // wire bytes of the blocks every copy of the node starts with
	blocks   map[string][]byte // candidate blocks by name
	hashes   map[string]common.Hash
	heights  map[string]uint32
	times    map[string]uint32
	headName string
	names    map[common.Hash]string
	sigs     map[string]types.SignData // "block/deputyIndex"
}

type request struct {
	kind  string // insert | confirms | mine | read
	block string
	signs []int
}

func (r request) String() string {
	switch r.kind {
	case "insert":
		return "insert(" + r.block + ")"
	case "confirms":
		return fmt.Sprintf("confirms(%s by %v)", r.block, r.signs)
	case "mine":
		return "mine"
	}
	return "read"
}

func (m *material) name(h common.Hash) string {
	if n, ok := m.names[h]; ok {
		return n
	}
	return "?" + h.Hex()[2:8]
}

// newCopy builds a fresh node holding the prefix, with the deputy identity installed.
func (m *material) newCopy() *sim.Node {
	n := sim.NewNode(m.w, m.self, 17)
	for _, wire := range m.prefix {
		if err := n.BC.InsertBlock(sim.DecodeBlock(wire)); err != nil {
			panic(fmt.Sprintf("harness: prefix block rejected: %v", err))
		}
	}
	return n
}

type outcome struct {
	results []string // per mutating request, by request index
	state   string
	mined   *types.Block
}

// do executes one request on a node.
func (m *material) do(n *sim.Node, r request) (string, *types.Block) {
	switch r.kind {
	case "insert":
		_, err := n.Engine.InsertBlock(sim.DecodeBlock(m.blocks[r.block]))
		return errClass(err), nil
	case "confirms":
		var sigs []types.SignData
		for _, d := range r.signs {
			sigs = append(sigs, m.sigs[fmt.Sprintf("%s/%d", r.block, d)])
		}
		err := n.Engine.InsertConfirms(m.heights[r.block], m.hashes[r.block], sigs)
		_ = err // the verdict of a confirm packet is visible in the state (which confirms are stored)
		return "-", nil
	case "mine":
		b, err := n.Engine.MineBlock(3000)
		if err != nil {
			return "mine-refused", nil
		}
		return "mined-on-" + m.name(b.ParentHash()), b
	default:
		return m.read(n), nil
	}
}

// read does what the RPC layer does for its chain and account queries (main/node/api.go). A panic is a verdict of its own.
func (m *material) read(n *sim.Node) (res string) {
	defer func() {
		if r := recover(); r != nil {
			res = fmt.Sprintf("read-panicked: %v", r)
		}
	}()
	for round := 0; round < 25; round++ {
		m.readOnce(n)
	}
	return "-"
}

func (m *material) readOnce(n *sim.Node) {
	cur := n.BC.CurrentBlock()
	sta := n.BC.StableBlock()
	_ = n.BC.GetBlockByHeight(cur.Height())
	_ = n.BC.GetBlockByHash(cur.Hash())
	_ = n.BC.HasBlock(sta.Hash())
	// the candidate list of the latest stable block, the way GetCandidateTop30 asks for it
	if g, ok := interface{}(n.BC).(interface{ GetStableCandidatesTop() []*store.Candidate }); ok {
		_ = g.GetStableCandidatesTop()
	} else {
		_ = n.BC.GetCandidatesTop(n.BC.StableBlock().Hash())
	}
	acc := n.BC.AccountManager().GetCanonicalAccount(m.w.Founder.Addr)
	_ = acc.GetBalance()
	_ = n.DM.GetDeputiesByHeight(cur.Height()+1, true)
}

func errClass(err error) string {
	if err == nil {
		return "ok"
	}
	return "refused"
}

// settle waits for the engine's background goroutines (batch confirm of new stable blocks, feeds) to finish. Bounded, not a verdict.
func settle(base int) {
	deadline := time.Now().Add(3 * time.Second)
	calm, same, last := 0, 0, -1
	for time.Now().Before(deadline) && calm < 3 && same < 15 {
		g := runtime.NumGoroutine()
		if g <= base {
			calm++
		} else {
			calm = 0
		}
		if g == last {
			same++
		} else {
			same, last = 0, g
		}
		time.Sleep(2 * time.Millisecond)
	}
}

// snapshot renders the observable end state: head, stable, and for every block the node has, who confirmed it.
func (m *material) snapshot(n *sim.Node, mined *types.Block) (string, []string) {
	var problems []string
	nm := func(h common.Hash) string {
		if mined != nil && h == mined.Hash() {
			return "M"
		}
		return m.name(h)
	}
	var lines []string
	lines = append(lines, "current="+nm(n.Current().Hash()), "stable="+nm(n.Stable().Hash()))
	var hs []common.Hash
	for h := range m.names {
		hs = append(hs, h)
	}
	if mined != nil {
		hs = append(hs, mined.Hash())
	}
	sort.Slice(hs, func(i, j int) bool { return nm(hs[i]) < nm(hs[j]) })
	selfID := m.self.NodeID
	ownByParentHeight := map[string][]string{}
	for _, h := range hs {
		b := n.BC.GetBlockByHash(h)
		if b == nil {
			continue
		}
		var who []string
		seen := map[string]bool{}
		for _, sig := range b.Confirms {
			pub, err := crypto.Ecrecover(h[:], sig[:])
			if err != nil {
				problems = append(problems, fmt.Sprintf("block %s stores a confirm that recovers to nothing", nm(h)))
				continue
			}
			id := pub[1:]
			label := "?"
			for i, d := range m.w.Deputies {
				if bytes.Equal(d.NodeID, id) {
					label = fmt.Sprintf("d%d", i)
				}
			}
			if label == "?" {
				problems = append(problems, fmt.Sprintf("block %s stores a confirm by a node that is no deputy", nm(h)))
			}
			if seen[label] {
				problems = append(problems, fmt.Sprintf("block %s stores two confirms by %s", nm(h), label))
			}
			seen[label] = true
			who = append(who, label)
			if bytes.Equal(id, selfID) {
				k := fmt.Sprintf("%d", b.Height())
				ownByParentHeight[k] = append(ownByParentHeight[k], nm(h))
			}
		}
		if bytes.Equal(signerOf(b), selfID) {
			k := fmt.Sprintf("%d", b.Height())
			ownByParentHeight[k] = append(ownByParentHeight[k], nm(h)+"(mined)")
		}
		sort.Strings(who)
		lines = append(lines, fmt.Sprintf("%s:%v", nm(h), who))
	}
	for k, v := range ownByParentHeight {
		if len(v) > 1 {
			sort.Strings(v)
			problems = append(problems, fmt.Sprintf("the node signed %d different blocks of height %s: %v", len(v), k, v))
		}
	}
	return strings.Join(lines, " "), problems
}

func signerOf(b *types.Block) []byte {
	h := b.Hash()
	pub, err := crypto.Ecrecover(h[:], b.Header.SignData)
	if err != nil {
		return nil
	}
	return pub[1:]
}

// runSequential: the requests one after the other in the given order on a fresh copy.
func (m *material) runSequential(reqs []request, order []int) outcome {
	g0 := runtime.NumGoroutine()
	n := m.newCopy()
	defer func() { n.Destroy(); settle(g0) }()
	base := runtime.NumGoroutine()
	o := outcome{results: make([]string, len(reqs))}
	for _, i := range order {
		res, b := m.do(n, reqs[i])
		o.results[i] = res
		if b != nil {
			o.mined = b
		}
		settle(base)
	}
	o.state, _ = m.snapshot(n, o.mined)
	return o
}

// runConcurrent: all requests released from a barrier.
func (m *material) runConcurrent(reqs []request, feed func(*network.BlockConfirmData)) (outcome, []string) {
	g0 := runtime.NumGoroutine()
	n := m.newCopy()
	defer func() { n.Destroy(); settle(g0) }()
	ch := make(chan *network.BlockConfirmData, 64)
	sub := n.Engine.SubscribeConfirm(ch)
	stop := make(chan struct{})
	var emitted []*network.BlockConfirmData
	var emu sync.Mutex
	go func() {
		for {
			select {
			case c := <-ch:
				emu.Lock()
				emitted = append(emitted, c)
				emu.Unlock()
			case <-stop:
				return
			}
		}
	}()
	base := runtime.NumGoroutine()
	o := outcome{results: make([]string, len(reqs))}
	var wg sync.WaitGroup
	var mu sync.Mutex
	start := make(chan struct{})
	for i := range reqs {
		wg.Add(1)
		go func(i int) {
			defer wg.Done()
			<-start
			res, b := m.do(n, reqs[i])
			mu.Lock()
			o.results[i] = res
			if b != nil {
				o.mined = b
			}
			mu.Unlock()
		}(i)
	}
	close(start)
	wg.Wait()
	settle(base)
	var problems []string
	o.state, problems = m.snapshot(n, o.mined)
	for i, r := range o.results {
		if strings.HasPrefix(r, "read-panicked") {
			problems = append(problems, fmt.Sprintf("read query %d: %s", i, r))
		}
	}
	close(stop)
	sub.Unsubscribe()
	emu.Lock()
	for _, c := range emitted {
		pub, err := crypto.Ecrecover(c.Hash[:], c.SignInfo[:])
		if err != nil || !bytes.Equal(pub[1:], m.self.NodeID) {
			problems = append(problems, fmt.Sprintf("the node emitted a confirm for %s which is not its own signature over that hash", m.name(c.Hash)))
		}
		if b := n.BC.GetBlockByHash(c.Hash); b == nil || b.Height() != c.Height {
			problems = append(problems, fmt.Sprintf("the node emitted a confirm naming block %s height %d which it does not have", m.name(c.Hash), c.Height))
		}
	}
	emu.Unlock()
	return o, problems
}

func (o outcome) key(reqs []request) string {
	var parts []string
	for i, r := range reqs {
		if r.kind == "insert" || r.kind == "mine" {
			parts = append(parts, r.String()+"="+o.results[i])
		}
	}
	return strings.Join(parts, " ") + " | " + o.state
}

// prepare builds the material for d deputies and a prefix of np blocks. selfIdx < 0: the node under test is the deputy whose
// turn it is right now on top of the prefix head (so that its miner has something to do).
func prepare(d, np, selfIdx int) *material {
	w := sim.NewWorld("w", d, 3)
	f := sim.NewNode(w, w.Deputies[0], 17)
	defer f.Destroy()
	m := &material{w: w, blocks: map[string][]byte{}, hashes: map[string]common.Hash{}, heights: map[string]uint32{}, times: map[string]uint32{}, names: map[common.Hash]string{}, sigs: map[string]types.SignData{}}
	reg := func(name string, b *types.Block) {
		m.blocks[name] = sim.EncodeBlock(b)
		m.hashes[name] = b.Hash()
		m.heights[name] = b.Height()
		m.times[name] = b.Time()
		m.names[b.Hash()] = name
		for i, dep := range w.Deputies {
			m.sigs[fmt.Sprintf("%s/%d", name, i)] = sim.ConfirmAs(b, dep)
		}
	}
	m.names[f.Genesis.Hash()] = "G"
	// the prefix: blocks in turn, with a transfer each
	head := f.Genesis
	for i := 0; i < np; i++ {
		tx := sim.Transfer(w.Founder, w.Users[i%3].Addr, sim.Lemo(int64(5+i)), uint64(head.Time())+1000)
		b := f.MineNext(head, types.Transactions{tx})
		name := fmt.Sprintf("P%d", i+1)
		reg(name, b)
		m.prefix = append(m.prefix, m.blocks[name])
		head = b
	}
	m.headName = fmt.Sprintf("P%d", np)
	h := head.Height() + 1
	cnt := f.DM.GetDeputiesCount(h)
	if selfIdx >= 0 {
		m.self = w.Deputies[selfIdx]
	} else {
		now := time.Now().Unix()
		pr := f.RankOf(h, head.MinerAddress())
		if h == 1 {
			pr = -1
		}
		m.self = f.DeputyAt(h, sim.ModelInTurn(pr, cnt, (now-int64(head.Time()))*1000, int64(sim.MineTimeoutMs)))
	}
	// candidates: A (next block), A2 (its sibling by another deputy), B (child of A), C (child of B)
	mineOn := func(parent *types.Block, rankOffset int, name string, amount int64, avoid ...common.Address) *types.Block {
		ph := parent.Height() + 1
		pr := f.RankOf(ph, parent.MinerAddress())
		rank := ((pr+1+rankOffset)%cnt + cnt) % cnt
		if ph == 1 {
			rank = rankOffset % cnt
		}
		// never with the key of the node under test: only the node itself signs with it
		bad := func(a common.Address) bool {
			for _, x := range append(avoid, m.self.Miner.Addr) {
				if x == a {
					return true
				}
			}
			return false
		}
		for bad(f.DeputyAt(ph, rank).Miner.Addr) {
			rank = (rank + 1) % cnt
		}
		when := f.TimeFor(parent, rank, 0, 1)
		tx := sim.Transfer(w.Founder, w.Users[0].Addr, sim.Lemo(amount), uint64(when)+900)
		b, _, err := f.MineAs(f.DeputyAt(ph, rank), parent, when, types.Transactions{tx})
		if err != nil {
			panic(fmt.Sprintf("harness: mining %s: %v", name, err))
		}
		reg(name, b)
		return b
	}
	a := mineOn(head, 0, "A", 31)
	mineOn(head, 1, "A2", 32, a.MinerAddress())
	b := mineOn(a, 0, "B", 33)
	mineOn(b, 0, "C", 34)
	return m
}

// genRequests draws the request mix.
func genRequests(t *rapid.T, m *material) []request {
	d := len(m.w.Deputies)
	var reqs []request
	pool := []string{"A", "A2", "B", "C"}
	known := []string{m.headName, "A", "A2", "B"}
	nmut := rapid.IntRange(2, 4).Draw(t, "mutating")
	mineUsed := false
	for len(reqs) < nmut {
		switch rapid.IntRange(0, 5).Draw(t, "reqKind") {
		case 0, 1:
			reqs = append(reqs, request{kind: "insert", block: pool[rapid.IntRange(0, len(pool)-1).Draw(t, "insertWhich")]})
		case 2, 3:
			blk := known[rapid.IntRange(0, len(known)-1).Draw(t, "confirmWhich")]
			var signs []int
			for i := 0; i < d; i++ {
				// never the node's own key: only the node itself signs with it (a packet carrying its "own" confirm for a block it
				// would not sign makes it look as if it had signed two blocks of one height)
				if m.w.Deputies[i] == m.self || string(m.w.Deputies[i].NodeID) == string(m.self.NodeID) {
					continue
				}
				if rapid.IntRange(0, 2).Draw(t, "signer") != 0 {
					signs = append(signs, i)
				}
			}
			if len(signs) == 0 {
				for i := 0; i < d; i++ {
					if string(m.w.Deputies[i].NodeID) != string(m.self.NodeID) {
						signs = []int{i}
						break
					}
				}
			}
			reqs = append(reqs, request{kind: "confirms", block: blk, signs: signs})
		default:
			if !mineUsed {
				reqs = append(reqs, request{kind: "mine"})
				mineUsed = true
			}
		}
	}
	for i, n := 0, rapid.IntRange(0, 2).Draw(t, "readers"); i < n; i++ {
		reqs = append(reqs, request{kind: "read"})
	}
	return reqs
}

// build: a fresh world per case; the node's identity follows the wall clock (or is drawn).
func build(t *rapid.T) (*material, []request) {
	sim.ResetGlobals()
	d := rapid.IntRange(3, 5).Draw(t, "deputies")
	np := rapid.IntRange(1, 3).Draw(t, "prefix")
	selfIdx := -1
	if rapid.IntRange(0, 3).Draw(t, "otherIdentity") == 0 {
		selfIdx = rapid.IntRange(0, d-1).Draw(t, "identity")
	}
	m := prepare(d, np, selfIdx)
	return m, genRequests(t, m)
}

func permutations(idx []int) [][]int {
	if len(idx) <= 1 {
		return [][]int{append([]int(nil), idx...)}
	}
	var res [][]int
	for i := range idx {
		rest := append(append([]int(nil), idx[:i]...), idx[i+1:]...)
		for _, p := range permutations(rest) {
			res = append(res, append([]int{idx[i]}, p...))
		}
	}
	return res
}

// slotsNow: for every block the miner could build on, the index of the slot the wall clock is in. The miner's answers of two
// runs are comparable only when none of these moved in between.
func (m *material) slotsNow() string {
	now := time.Now().Unix()
	var names []string
	for name := range m.times {
		names = append(names, name)
	}
	sort.Strings(names)
	var parts []string
	for _, name := range names {
		parts = append(parts, fmt.Sprint((now-int64(m.times[name]))/int64(sim.MineTimeoutMs/1000)))
	}
	return strings.Join(parts, ",")
}

// TestC19Serializable: the concurrent outcome is one of the sequential ones.
func TestC19Serializable(t *testing.T) {
	rapid.Check(t, func(rt *rapid.T) {
		m, reqs := build(rt)
		slot0 := m.slotsNow()
		con, problems := m.runConcurrent(reqs, nil)
		desc := fmt.Sprintf("node = deputy %d of %d; requests: %v", m.self.Index, len(m.w.Deputies), reqs)
		if len(problems) > 0 {
			rt.Fatalf("%s\n%s\nconcurrent outcome: %s", strings.Join(problems, "\n"), desc, con.key(reqs))
		}
		var mut []int
		for i, r := range reqs {
			if r.kind != "read" {
				mut = append(mut, i)
			}
		}
		allowed := map[string]bool{}
		var listed []string
		for _, order := range permutations(mut) {
			k := m.runSequential(reqs, order).key(reqs)
			if !allowed[k] {
				allowed[k] = true
				listed = append(listed, fmt.Sprintf("%v -> %s", order, k))
			}
		}
		if m.slotsNow() != slot0 {
			rt.Skip("the mining slot changed during the case: the miner's answers are not comparable")
		}
		if !allowed[con.key(reqs)] {
			rt.Fatalf("the concurrent outcome equals no sequential order of the same requests\n%s\nconcurrent: %s\nsequential outcomes:\n  %s", desc, con.key(reqs), strings.Join(listed, "\n  "))
		}
		hasMine, mined := false, con.mined != nil
		for _, r := range reqs {
			hasMine = hasMine || r.kind == "mine"
		}
		cls := []string{fmt.Sprintf("mutating%d", len(mut)), fmt.Sprintf("distinct-sequential-outcomes%d", min(len(allowed), 4)), fmt.Sprintf("mine=%v", hasMine), fmt.Sprintf("mined=%v", mined)}
		sim.Case("serializable", sim.HashOf(desc), len(allowed) >= 2, cls, func() interface{} { return desc + " => " + con.key(reqs) })
	})
}

// TestC19Race: the same mixes in a binary built with the race detector; a report makes the binary fail. All material is
// prepared once, before the first node under test exists, and the process keeps ONE node identity: the harness then never
// writes a process global (node key, term lengths, subscription table) while product goroutines of an earlier case may
// still be running, so every report concerns two product accesses.
var (
	raceOnce sync.Once
	raceMats map[[2]int]*material
)

func TestC19Race(t *testing.T) {
	raceOnce.Do(func() {
		sim.ResetGlobals()
		raceMats = map[[2]int]*material{}
		shard, _ := sim.Shard()
		selfIdx := int(sim.Seed()+int64(shard)) % 3
		for d := 3; d <= 5; d++ {
			for np := 1; np <= 3; np++ {
				raceMats[[2]int{d, np}] = prepare(d, np, selfIdx)
			}
		}
		self := raceMats[[2]int{3, 1}].self
		probe := sim.NewNode(raceMats[[2]int{3, 1}].w, self, 17) // installs the key once
		probe.Destroy()
		sim.FixedIdentity = self
	})
	rapid.Check(t, func(rt *rapid.T) {
		m := raceMats[[2]int{rapid.IntRange(3, 5).Draw(rt, "deputies"), rapid.IntRange(1, 3).Draw(rt, "prefix")}]
		reqs := genRequests(rt, m)
		con, problems := m.runConcurrent(reqs, nil)
		desc := fmt.Sprintf("node = deputy %d of %d; requests: %v", m.self.Index, len(m.w.Deputies), reqs)
		if len(problems) > 0 {
			rt.Fatalf("%s\n%s\nconcurrent outcome: %s", strings.Join(problems, "\n"), desc, con.key(reqs))
		}
		nmut := 0
		for _, r := range reqs {
			if r.kind != "read" {
				nmut++
			}
		}
		sim.Case("race", sim.HashOf(desc), nmut >= 2 && len(reqs) >= 3, []string{fmt.Sprintf("requests%d", len(reqs)), fmt.Sprintf("mined=%v", con.mined != nil)}, func() interface{} { return desc })
	})
}
